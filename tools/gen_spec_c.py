#!/usr/bin/env python3
"""spec/tokens.json -> C tables for one dialect (oracle side of the basic harnesses).
usage: gen_spec_c.py DIALECT > spec_tables.h"""
import json, os, sys
HERE = os.path.dirname(os.path.abspath(__file__))
KINDS = ["K_STR", "K_SELF", "K_INVALID", "K_LINENUM", "K_EXT6", "K_EXT7", "K_EXT8", "K_PDP", "K_FASTVAR", "K_UNSPEC"]
MAP = {"self": "K_SELF", "invalid": "K_INVALID", "linenum": "K_LINENUM", "ext6": "K_EXT6", "ext7": "K_EXT7",
       "ext8": "K_EXT8", "pdp_c8": "K_PDP", "fastvar": "K_FASTVAR", "unspec": "K_UNSPEC"}

def cstr(s):
    return '"' + "".join(ch if (ch.isalnum() or ch in "$(") else "\\x%02x" % ord(ch) for ch in s) + '"'

def main():
    d = sys.argv[1]
    spec = json.load(open(os.path.join(HERE, "..", "spec", "tokens.json")))
    t = spec["tables"][d]
    out = ["/* generated from spec/tokens.json for dialect %s */" % d,
           "enum speckind { %s };" % ", ".join(KINDS),
           "#define SPEC_BIG_ENDIAN %d" % (1 if d in spec["big_endian"] else 0),
           "#define SPEC_HAS_PDP %d" % (1 if d == "PDP11" else 0),
           "#define SPEC_HAS_EXT %d" % (1 if d in ("ARM", "Mac") else 0)]
    def tab(name, tb):
        kinds, strs = [], []
        for b in range(256):
            e = tb["0x%02X" % b] if tb else "invalid"
            if isinstance(e, dict):
                kinds.append("K_STR"); strs.append(cstr(e["s"]))
            else:
                kinds.append(MAP[e]); strs.append("0")
        out.append("static const unsigned char SPEC_KIND_%s[256] = {%s};" % (name, ",".join(kinds)))
        out.append("static const char *const SPEC_STR_%s[256] = {%s};" % (name, ",".join(strs)))
    tab("base", t["base"])
    for w in ("c6", "c7", "c8"):
        tab(w, t.get(w))
    print("\n".join(out))

main()
