"""Common machinery for the /verif checks: scratch space, job scheduling,
CBMC invocation and result parsing, native replay, evidence, findings."""
import atexit, json, os, re, resource, shutil, subprocess, sys, tempfile, threading, time
from concurrent.futures import ThreadPoolExecutor

ROOT = os.path.dirname(os.path.dirname(os.path.abspath(__file__)))
REPO = os.environ.get("VERIF_REPO", "/repo")
NCPU = os.cpu_count() or 4
MEM_BUDGET_GB = int(os.environ.get("VERIF_MEM_GB", "48"))

_scratch = None
def scratch():
    global _scratch
    if _scratch is None:
        base = os.environ.get("VERIF_SCRATCH", "/var/tmp")
        _scratch = tempfile.mkdtemp(prefix="verif-%d-" % os.getpid(), dir=base)
        if not os.environ.get("VERIF_KEEP"):
            atexit.register(lambda: shutil.rmtree(_scratch, ignore_errors=True))
    return _scratch

def subdir(name):
    p = os.path.join(scratch(), name)
    os.makedirs(p, exist_ok=True)
    return p

def sh(cmd, timeout=600, mem_gb=None, cwd=None, env=None, stdin=None):
    """Run cmd (list). Returns dict(rc, out, wall, rss_kb, timed_out)."""
    def lim():
        if mem_gb:
            b = int(mem_gb * (1 << 30))
            resource.setrlimit(resource.RLIMIT_AS, (b, b))
        os.setsid()
    t0 = time.time()
    e = dict(os.environ)
    if env: e.update(env)
    p = subprocess.Popen(cmd, stdout=subprocess.PIPE, stderr=subprocess.STDOUT, cwd=cwd, env=e,
                         preexec_fn=lim, stdin=subprocess.PIPE if stdin is not None else subprocess.DEVNULL)
    timed_out = False
    try:
        out, _ = p.communicate(input=stdin, timeout=timeout)
    except subprocess.TimeoutExpired:
        timed_out = True
        try: os.killpg(p.pid, 9)
        except Exception: pass
        out, _ = p.communicate()
    ru = resource.getrusage(resource.RUSAGE_CHILDREN)
    return dict(rc=p.returncode, out=out.decode("utf-8", "replace"), wall=time.time() - t0,
                rss_kb=ru.ru_maxrss, timed_out=timed_out)

# ------------------------------------------------------------------ scheduling
class Sched:
    """Runs callables in parallel under a CPU and a memory budget (GB weights)."""
    def __init__(self, ncpu=NCPU, mem_gb=MEM_BUDGET_GB):
        self.ncpu, self.mem = ncpu, mem_gb
        self.cv = threading.Condition()
        self.cpu_used, self.mem_used = 0, 0
    def run_all(self, tasks):
        """tasks: list of (weight_gb, fn). Returns list of results in order."""
        res = [None] * len(tasks)
        def worker(i, w, fn):
            w = min(w, self.mem)
            with self.cv:
                while self.cpu_used >= self.ncpu or self.mem_used + w > self.mem:
                    self.cv.wait()
                self.cpu_used += 1; self.mem_used += w
            try:
                res[i] = fn()
            except Exception as ex:   # infrastructure error
                res[i] = ex
            finally:
                with self.cv:
                    self.cpu_used -= 1; self.mem_used -= w
                    self.cv.notify_all()
        order = sorted(range(len(tasks)), key=lambda i: -tasks[i][0])
        with ThreadPoolExecutor(max_workers=max(1, len(tasks))) as ex:
            futs = [ex.submit(worker, i, tasks[i][0], tasks[i][1]) for i in order]
            for f in futs: f.result()
        return res

# ------------------------------------------------------------------ CBMC
CBMC_CHECKS = ["--bounds-check", "--pointer-check", "--div-by-zero-check", "--signed-overflow-check",
               "--undefined-shift-check", "--pointer-overflow-check"]
# (--conversion-check is deliberately off: it flags the well-defined truncating casts
#  `(unsigned char)(b1 << 2)` of print_target_line_number, which UBSan rightly does not.)
RES_RE = re.compile(r"^\[(?P<id>[^\]]+)\]\s+(?:line \d+\s+)?(?P<desc>.*):\s+(?P<st>SUCCESS|FAILURE|UNKNOWN|ERROR)\s*$")

def parse_cbmc(out):
    props = {}
    loc = ""
    for line in out.splitlines():
        m = RES_RE.match(line)
        if m:
            props[m.group("id")] = (m.group("desc"), m.group("st"))
    if "VERIFICATION SUCCESSFUL" in out: verdict = "SUCCESSFUL"
    elif "VERIFICATION FAILED" in out: verdict = "FAILED"
    else: verdict = "ERROR"
    stats = {}
    m = re.findall(r"(\d+) variables, (\d+) clauses", out)
    if m: stats["variables"], stats["clauses"] = int(m[-1][0]), int(m[-1][1])
    m = re.findall(r"Runtime Solver: ([0-9.e+-]+)s", out)
    if m: stats["solver_s"] = round(sum(float(x) for x in m), 2)
    m = re.findall(r"Runtime Symex: ([0-9.e+-]+)s", out)
    if m: stats["symex_s"] = round(sum(float(x) for x in m), 2)
    return verdict, props, stats

TRACE_ASSIGN_RE = re.compile(r"^\s+(VF_TRACE\[(\d+)l?\])=(-?\d+)u?l?\b")

def parse_trace_inputs(out):
    """Returns the list of recorded nondet values (VF_TRACE[k]) from a CBMC --trace output."""
    vals = {}
    n = None
    for line in out.splitlines():
        m = TRACE_ASSIGN_RE.match(line)
        if m:
            vals[int(m.group(2))] = int(m.group(3))
        m2 = re.match(r"^\s+vf_trace_n=(\d+)", line)
        if m2: n = int(m2.group(1))
    if n is None: n = (max(vals) + 1) if vals else 0
    return [vals.get(i, 0) & 0xFFFFFFFFFFFFFFFF for i in range(n)]

class Obligation:
    """One solver query (or a family member).  build() -> dict(cmd=[...], cwd=..., native=...)"""
    def __init__(self, oid, desc, bounds, functions, build, weight_gb=4, timeout=900, known=None, stubs=None, assumptions=None):
        self.id, self.desc, self.bounds, self.functions = oid, desc, bounds, functions
        self.build, self.weight_gb, self.timeout = build, weight_gb, timeout
        self.known = known or []          # known-finding ids excluded by assumption in this obligation
        self.stubs = stubs or []
        self.assumptions = assumptions or []
        self.result = None

def cbmc_cmd(files, entry, unwindset, defines=(), includes=(), unwind=1, solver="cadical", extra=(), checks=True, no_checks=()):
    cmd = ["cbmc"]
    for i in includes: cmd += ["-I", i]
    for d in defines: cmd += ["-D", d]
    cmd += list(files)
    cmd += ["--function", entry, "--unwind", str(unwind)]
    if unwindset: cmd += ["--unwindset", ",".join("%s:%d" % (k, v) for k, v in unwindset.items())]
    cmd += ["--unwinding-assertions", "--drop-unused-functions", "--no-malloc-may-fail", "--verbosity", "8"]
    if checks: cmd += [c for c in CBMC_CHECKS if c not in no_checks]
    if solver == "kissat": cmd += ["--external-sat-solver", "kissat"]
    elif solver: cmd += ["--sat-solver", solver]
    cmd += list(extra)
    return cmd

def run_obligation(ob):
    """Runs the obligation's CBMC query and classifies the outcome."""
    t0 = time.time()
    try:
        spec = ob.build()
    except Exception as ex:
        ob.result = dict(status="error", detail="build failed: %r" % (ex,), wall=time.time() - t0)
        return ob
    r = sh(spec["cmd"], timeout=ob.timeout, mem_gb=ob.weight_gb * 1.5 + 2, cwd=spec.get("cwd"))
    verdict, props, stats = parse_cbmc(r["out"])
    res = dict(wall=round(r["wall"], 1), stats=stats, cmd=" ".join(spec["cmd"]), spec=spec)
    if r["timed_out"]:
        res.update(status="inconclusive", detail="timeout after %ds" % ob.timeout)
    elif verdict == "ERROR":
        res.update(status="error", detail=r["out"][-1500:])
    else:
        wit = {k: v for k, v in props.items() if v[0].startswith("WITNESS")}
        real = {k: v for k, v in props.items() if not v[0].startswith("WITNESS")}
        failed = {k: v[0] for k, v in real.items() if v[1] != "SUCCESS"}
        unreachable = {k: v[0] for k, v in wit.items() if v[1] != "FAILURE"}
        res.update(n_props=len(real), n_witness=len(wit), failed=failed, unreachable=unreachable)
        if failed: res["status"] = "violated"
        elif unreachable: res.update(status="vacuous", detail="witness not reachable: %s" % unreachable)
        elif not wit: res.update(status="vacuous", detail="harness has no reachability witness")
        else: res["status"] = "discharged"
    ob.result = res
    return ob

def get_trace(ob, prop_id):
    spec = ob.result["spec"]
    cmd = spec["cmd"] + ["--property", prop_id, "--trace"]
    r = sh(cmd, timeout=ob.timeout, mem_gb=ob.weight_gb * 1.5 + 2, cwd=spec.get("cwd"))
    return r["out"]

# ------------------------------------------------------------------ findings
def load_findings():
    p = os.path.join(ROOT, "known_findings.json")
    if not os.path.exists(p): return []
    return json.load(open(p))

def recorded_findings(pid):
    return [f for f in load_findings() if f["property"] == pid and f.get("status") == "recorded"]

# ------------------------------------------------------------------ evidence
def write_evidence(pid, tier, seed, obligations, wall, violations, extra=None, assumptions=None, samples=None):
    obs = []
    nquery = 0; ndis = 0; nwit = 0; solver_s = 0.0
    nvars = 0; nclauses = 0; nvalid = 0; nasserts = 0
    funcs, stubs = [], []
    not_encoded = []
    for ob in obligations:
        r = ob.result or {}
        nquery += 1
        if r.get("status") == "discharged": ndis += 1
        if r.get("status") == "discharged": nwit += r.get("n_witness", 0) or 0
        st = r.get("stats") or {}
        nvars += st.get("variables", 0) or 0; nclauses += st.get("clauses", 0) or 0
        nasserts += r.get("n_props", 0) or 0
        tv = r.get("translation_validation") or ""
        mm = re.match(r"(\d+) vectors agree", tv)
        if mm: nvalid += int(mm.group(1))
        solver_s += (r.get("stats") or {}).get("solver_s", 0.0)
        for f in ob.functions:
            if f not in funcs: funcs.append(f)
        for s in ob.stubs:
            if s not in stubs: stubs.append(s)
        if r.get("status") in ("error", "inconclusive", "vacuous"):
            not_encoded.append({"obligation": ob.id, "why": (r.get("detail") or "")[:300]})
        obs.append({"obligation": ob.id, "what": ob.desc, "bounds": ob.bounds, "status": r.get("status"),
                    "assertions_checked": r.get("n_props"), "reachability_witnesses": r.get("n_witness"),
                    "wall_s": r.get("wall"), "formula": r.get("stats"),
                    "failed": r.get("failed"), "known_findings_excluded": ob.known,
                    "translation_validation": r.get("translation_validation")})
    cov = {"obligations": len(obligations), "discharged": ndis, "evaluations": nquery,
           "distinct_nontrivial": nwit,
           "rule": "one evaluation = one CBMC query (all assertions of one harness instance, all-properties mode). "
                   "distinct_nontrivial counts the distinct reachability WITNESS points (assert(0) placed at the interesting program "
                   "points of the discharged harnesses) for which the solver exhibited an input reaching them; a query whose witnesses are "
                   "not all reachable is reported vacuous, never as a pass. states = propositional variables of the bit-precise encodings "
                   "of the real code (summed over queries), transitions = clauses constraining them, both as reported by CBMC; "
                   "traces_validated_against_impl = concrete input vectors on which the gcc-built generated C and the g++-built real C++ "
                   "(or, for the C units, the oracle and the repository's golden listings) were run and compared on this run",
           "states": max(nvars, 1), "transitions": max(nclauses, 1), "traces_validated_against_impl": nvalid + (extra or {}).get("oracle_validated", 0),
           "assertions_checked": nasserts,
           "samples": samples or obs[:8], "queries": obs, "functions": funcs, "stubs": stubs,
           "not_encoded": not_encoded, "solver_s": round(solver_s, 1),
           "checker_cmd": "cbmc 6.11.0 --unwinding-assertions (per-loop --unwindset), SAT back end cadical",
           "explanation": "bounded model checking of the real source; see DESIGN.md"}
    if extra: cov.update(extra)
    ev = {"property_id": pid, "tier": tier, "seed": seed, "level": "model_checking", "coverage": cov,
          "assumptions": assumptions or [], "wall_s": round(wall, 1), "violations": violations}
    os.makedirs(os.path.join(ROOT, "evidence"), exist_ok=True)
    with open(os.path.join(ROOT, "evidence", pid + ".json"), "w") as f:
        json.dump(ev, f, indent=1, default=str)
    return ev

def tree_id():
    """Identifies /repo's working tree state (HEAD + dirty diff hash)."""
    h = sh(["git", "-C", REPO, "rev-parse", "HEAD"])["out"].strip()
    d = sh(["git", "-C", REPO, "diff", "HEAD"])["out"]
    import hashlib
    return h[:12] + "-" + hashlib.sha1(d.encode()).hexdigest()[:8]
