#!/bin/sh
# usage: run_seed.sh <seed-name> <property> [extra check args]   -- applies seeded/<seed>/patch.diff to /repo, runs the check, reverts.
S=/verif/seeded/$1/patch.diff; P=$2; shift; shift
cd /repo || exit 2
git diff --quiet || { echo "/repo has uncommitted changes"; exit 2; }
git apply --3way "$S" 2>/dev/null || git apply "$S" || { echo "patch does not apply"; exit 2; }
cd /verif && ./check $P "$@" > /var/tmp/seedrun-$$.log 2>&1; rc=$?
git -C /repo checkout -- . ; git -C /repo reset -q --hard HEAD
echo "seed=$S property=$P check_rc=$rc"; grep -E "VIOLATION|INFRASTRUCTURE|held on" /var/tmp/seedrun-$$.log | cut -c1-220 | head -6; rm -f /var/tmp/seedrun-$$.log
