#!/bin/sh
# Runs the repository's own test-suite with the verification guard OFF
# (there are no hooks in /repo: the harness TUs include the real sources,
# so "guard off" is simply the ordinary build).  Builds in a scratch
# directory outside /repo and /verif and removes it afterwards.
set -e
SCR=${VERIF_SCRATCH:-/var/tmp}/verif-baseline-$$
trap 'rm -rf "$SCR"' EXIT INT TERM
mkdir -p "$SCR"
cmake -G Ninja -S /repo -B "$SCR/b" -DCMAKE_BUILD_TYPE=RelWithDebInfo \
      -DCMAKE_C_FLAGS=-Wno-error -DCMAKE_CXX_FLAGS=-Wno-error >"$SCR/cmake.log" 2>&1 \
  || { cat "$SCR/cmake.log"; exit 2; }
cmake --build "$SCR/b" -j16 >"$SCR/build.log" 2>&1 || { tail -50 "$SCR/build.log"; exit 2; }
set +e
ctest --test-dir "$SCR/b" -j8 --timeout 900 --output-junit "$SCR/junit.xml" >"$SCR/ctest.log" 2>&1
rc=$?
grep -E 'Test +#|tests passed|tests failed' "$SCR/ctest.log"
exit $rc
