#!/usr/bin/env python3
"""Reads a seed-sweep log (lines 'seed=<path> property=<id> check_rc=<n>' followed by the check's VIOLATION/held lines),
fills in seeded/*/meta.json `detected_by`, and prints the markdown table used in DESIGN.md 10.7."""
import json, os, re, sys
ROOT = os.path.dirname(os.path.dirname(os.path.abspath(__file__)))
log = open(sys.argv[1]).read().splitlines()
res = {}
cur = None
for l in log:
    m = re.match(r"seed=/verif/seeded/([^/]+)/patch.diff property=(C\d+) check_rc=(\d+)", l)
    if m:
        cur = (m.group(1), m.group(2)); res[cur] = dict(rc=int(m.group(3)), obs=[]); continue
    m = re.match(r"VIOLATION property=(C\d+) replay=/verif/replays/C\d+/([^/]+)/", l)
    if m and cur: res[cur]["obs"].append(m.group(2))
rows = []
for (seed, prop), r in sorted(res.items()):
    d = os.path.join(ROOT, "seeded", seed)
    obs = sorted(set(r["obs"]))
    if r["rc"] == 1: det = "DETECTED by ./check %s --tier quick (exit 1, replayed VIOLATION) via obligation(s) %s" % (prop, ", ".join(obs))
    elif r["rc"] == 0: det = "MISSED by ./check %s --tier quick (exit 0): the code the change touches is outside the obligations of this property (DESIGN.md 10.3/10.5)" % prop
    else: det = "check exit %d (infrastructure) with this change applied" % r["rc"]
    mp = os.path.join(d, "meta.json")
    if os.path.exists(mp):
        m = json.load(open(mp))
    else:
        src = open(os.path.join(d, "SOURCE.txt")).read().splitlines()[0] if os.path.exists(os.path.join(d, "SOURCE.txt")) else ""
        m = dict(property=prop, origin="regression seed: the reversed fix commit " + src, needs_to_manifest="the input of the original defect (known_findings.json)",
                 confirmed="patch applies to /repo HEAD and builds; the original defect was reproduced before the fix (known_findings.json)")
    prev = m.get("detected_by")
    if isinstance(prev, dict): prev[prop] = det; m["detected_by"] = prev
    else: m["detected_by"] = {prop: det}
    json.dump(m, open(mp, "w"), indent=1)
    what = ""
    sp = os.path.join(d, "SOURCE.txt")
    if os.path.exists(sp): what = open(sp).read().splitlines()[0]
    else: what = m.get("needs_to_manifest", "")[:110]
    rows.append("| %s | %s | %s | %s |" % (seed, prop, "✓ " + ", ".join(o.split(".", 1)[1] for o in obs) if r["rc"] == 1 else ("✗" if r["rc"] == 0 else "exit %d" % r["rc"]), what.replace("|", "/")))
print("| seed | property | caught by | what the change is / needs |\n|----|----|----|----|")
print("\n".join(rows))
