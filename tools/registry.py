"""Which obligations decide which property, per tier.  Bounds live here."""
import os, sys
from vlib import *
import basic_checks as B

PROPS = {}
def prop(pid):
    def deco(f):
        PROPS[pid] = f
        return f
    return deco

def obligations(pid, tier):
    return PROPS[pid](tier)

# ----------------------------------------------------------------------------- basic/*.c
BASIC_ASSUME = [
    "stdio is modelled by harness/c/env.h (ISO C contract of fgetc/getc/fread/ftell/ferror/clearerr/printf/fprintf/fputs/putchar/perror)",
    "token tables: the struct the decoder reads is generated natively on every run from the current build_mapping(); "
    "its agreement with doc/bbcbasic.5 (spec/tokens.json) is a separate obligation (tables.*)",
    "oracle = harness/c/ref.h, written from doc/bbcbasic.5 and doc/bbcbasic_to_text.1; where the documents are silent or "
    "contradictory (0x0D inside a line, 0x7F outside ARM/Mac, Mac 0xC8 0x99..0xA6, non-canonical 0x8D operands, bytes after "
    "the end marker, empty files, little-endian lines of length 3) the oracle makes no claim",
    "lines longer than the bound L and files longer than N bytes are outside the solver's verdict; the per-byte loop of "
    "decode_line carries no state besides in_string/len/p, which is the argument (not a solver result) for representativeness",
]

@prop("C03")
def c03(tier):
    L = 5 if tier == "quick" else 9
    N = 16 if tier == "quick" else 28
    obs = [B.tables_ob("C03", d, n) for d, n in B.DIALECTS]
    obs += [B.line_ob("C03", d, n, "CONFORM", L) for d, n in B.DIALECTS]
    obs += [B.framing_ob("C03", e, "FRAME", N) for e in ("BE", "LE")]
    obs += [B.main_ob("C03", "FILES", ndebug=True)]
    return obs, dict(assumptions=BASIC_ASSUME, precheck=B.oracle_precheck)

@prop("C08")
def c08(tier):
    L = 5 if tier == "quick" else 9
    N = 20 if tier == "quick" else 40
    obs = [B.line_ob("C08", d, n, "SAFE", L) for d, n in B.DIALECTS]
    obs += [B.framing_ob("C08", e, "SAFE", N) for e in ("BE", "LE")]
    obs += [B.main_ob("C08", "SAFE", ndebug=True), B.main_ob("C08", "SAFE", ndebug=False)]
    obs += [B.mapping_safe_ob("C08")]
    return obs, dict(assumptions=BASIC_ASSUME)

@prop("C09")
def c09(tier):
    L = 5 if tier == "quick" else 9
    N = 12 if tier == "quick" else 20
    obs = [B.line_ob("C09", d, n, "REJECT", L) for d, n in B.DIALECTS]
    obs += [B.framing_ob("C09", e, "FRAME", N, nfiles=2) for e in ("BE", "LE")]
    obs += [B.refmono_ob("C09", e, N) for e in ("BE", "LE")]
    obs += [B.main_ob("C09", "FILES", ndebug=True)]
    return obs, dict(assumptions=BASIC_ASSUME, precheck=B.oracle_precheck)

# ----------------------------------------------------------------------------- dfs/*.cc
import cxx_checks as X
CXX_ASSUME = [
    "the code checked is the LLVM IR clang-14 -O1 produces for the real dfs/*.cc (same -std=c++17, -DUSE_ZLIB, -DNDEBUG as the pinned build); "
    "the shipped binary is built by g++ -O2, so compiler-specific exploitation of undefined behaviour is outside the claim",
    "tools/ir2c.py translation (LLVM nsw/nuw flags are ignored: arithmetic wraps) -- validated on every run by running the gcc-built generated C "
    "and the g++-built real code on the same vectors",
    "stubs/vf_stubs.c: operator new never fails; out-of-line libstdc++ string members, C++ EH runtime and C-locale ctype modelled by hand",
]
W_CAT = "w_catalog.cc"
# exception-message construction (std::string concatenation with data-dependent lengths) is irrelevant to every
# property and costs tens of millions of clauses: the constructors' bodies are cut (object left zeroed).
EXC_CTORS = [r"^_ZN3DFS13BadFileSystemC[12]E", r"^_ZN3DFS13BaseExceptionC[12]E", r"^_ZN3DFS11FileIOErrorC[12]E", r"^_ZN3DFS12UnrecognizedC[12]E"]
CAT_FUNCS = ["dfs/dfs_catalog.h:CatalogEntry::{load_address,exec_address,file_length,start_sector,is_locked,directory,metadata_word}",
             "dfs/dfs_catalog.cc:CatalogEntry::CatalogEntry", "CatalogEntry::last_sector", "sign_extend"]

def ob_entry_fields(pid):
    return X.cxx_ob(pid, "entry_fields", W_CAT, "h_entry_fields",
        "all 16 name+metadata bytes symbolic: every accessor equals the bit-field definition of the DFS catalogue (each 2-bit field of the mixed byte "
        "decoded independently), last_sector arithmetic, sign extension at bit 17",
        "128 symbolic bits, no further bound", CAT_FUNCS, unwind=10)

def ob_sector_walk(pid, maxlen):
    k = maxlen // 256 + 2
    return X.cxx_ob(pid, "sector_walk.len%d" % maxlen, W_CAT, "h_sector_walk",
        "visit_file_body_piecewise on a recording medium and visitor: sectors start, start+1, ...; pieces 256,...,256,len-256(k-1); "
        "total = catalogued length; bytes handed on are those of the sector just read; unreadable sector => BadFileSystem; visitor can stop the walk",
        "metadata bytes symbolic with file length <= %d (<= %d sectors), failure/stop points symbolic, one symbolic probe offset per piece" % (maxlen, k - 1),
        CAT_FUNCS + ["CatalogEntry::visit_file_body_piecewise", "std::function invoker", "BadFileSystem::BadFileSystem (dfs/exceptions.cc)"],
        unwind=10, unwindset=[("read_block", 257), ("visit_file_body", k), ("h_sector_walk", 9), ("X_strlen", 64), ("X_mem", 64)],
        defines=("NDEBUG", "WALK_MAXLEN=%d" % maxlen), weight_gb=3, noop_re=EXC_CTORS)

def ob_volume_access(pid):
    return X.cxx_ob(pid, "volume_access", W_CAT, "h_volume_access",
        "Volume::Access::read_block(lba) forwards origin+lba to the disc iff lba < volume length, otherwise fails without touching the disc",
        "origin, length 32-bit symbolic, lba 64-bit symbolic", ["dfs/dfs_volume.h:Volume::Access::read_block"],
        unwind=10, unwindset=[("read_block", 257)])

@prop("C01")
def c01(tier):
    obs = [ob_entry_fields("C01"), ob_sector_walk("C01", 1024 if tier == "quick" else 4096), ob_volume_access("C01")]
    return obs, dict(assumptions=CXX_ASSUME)

@prop("C17")
def c17(tier):
    obs = [ob_volume_access("C17")]
    return obs, dict(assumptions=CXX_ASSUME)

def cli_replay(pid, ob, values, outdir):
    kind = ob.result["spec"]["cli"]["kind"]
    if kind == "basic-file":
        return B.cli_replay_file(ob, values, outdir)
    return None
