"""Which obligations decide which property, per tier.  Bounds live here."""
import os, sys
from vlib import *
import basic_checks as B

PROPS = {}
def prop(pid):
    def deco(f):
        PROPS[pid] = f
        return f
    return deco

def obligations(pid, tier):
    return PROPS[pid](tier)

# ----------------------------------------------------------------------------- basic/*.c
BASIC_ASSUME = [
    "stdio is modelled by harness/c/env.h (ISO C contract of fgetc/getc/fread/ftell/ferror/clearerr/printf/fprintf/fputs/putchar/perror)",
    "token tables: the struct the decoder reads is generated natively on every run from the current build_mapping(); "
    "its agreement with doc/bbcbasic.5 (spec/tokens.json) is a separate obligation (tables.*)",
    "oracle = harness/c/ref.h, written from doc/bbcbasic.5 and doc/bbcbasic_to_text.1; where the documents are silent or "
    "contradictory (0x0D inside a line, 0x7F outside ARM/Mac, Mac 0xC8 0x99..0xA6, non-canonical 0x8D operands, bytes after "
    "the end marker, empty files, little-endian lines of length 3) the oracle makes no claim",
    "lines longer than the bound L and files longer than N bytes are outside the solver's verdict; the per-byte loop of "
    "decode_line carries no state besides in_string/len/p, which is the argument (not a solver result) for representativeness",
]

@prop("C03")
def c03(tier):
    L = 5 if tier == "quick" else 9
    N = 16 if tier == "quick" else 28
    obs = [B.tables_ob("C03", d, n) for d, n in B.DIALECTS]
    obs += [B.line_ob("C03", d, n, "CONFORM", L) for d, n in B.DIALECTS]
    obs += [B.framing_ob("C03", e, "FRAME", N) for e in ("BE", "LE")]
    obs += [B.main_ob("C03", "FILES", ndebug=True)]
    return obs, dict(assumptions=BASIC_ASSUME, precheck=B.oracle_precheck)

@prop("C08")
def c08(tier):
    L = 5 if tier == "quick" else 9
    N = 20 if tier == "quick" else 40
    obs = [B.line_ob("C08", d, n, "SAFE", L) for d, n in B.DIALECTS]
    obs += [B.framing_ob("C08", e, "SAFE", N) for e in ("BE", "LE")]
    obs += [B.main_ob("C08", "SAFE", ndebug=True), B.main_ob("C08", "SAFE", ndebug=False)]
    obs += [B.mapping_safe_ob("C08")]
    return obs, dict(assumptions=BASIC_ASSUME)

@prop("C09")
def c09(tier):
    L = 5 if tier == "quick" else 9
    N = 12 if tier == "quick" else 20
    obs = [B.line_ob("C09", d, n, "REJECT", L) for d, n in B.DIALECTS]
    obs += [B.framing_ob("C09", e, "FRAME", N, nfiles=2) for e in ("BE", "LE")]
    obs += [B.refmono_ob("C09", e, N) for e in ("BE", "LE")]
    obs += [B.main_ob("C09", "FILES", ndebug=True)]
    return obs, dict(assumptions=BASIC_ASSUME, precheck=B.oracle_precheck)

def cli_replay(pid, ob, values, outdir):
    kind = ob.result["spec"]["cli"]["kind"]
    if kind == "basic-file":
        return B.cli_replay_file(ob, values, outdir)
    return None
