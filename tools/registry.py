"""Which obligations decide which property, per tier.  Bounds live here."""
import os, sys
from vlib import *
import basic_checks as B

PROPS = {}
def prop(pid):
    def deco(f):
        PROPS[pid] = f
        return f
    return deco

def obligations(pid, tier):
    return PROPS[pid](tier)

# ----------------------------------------------------------------------------- basic/*.c
BASIC_ASSUME = [
    "stdio is modelled by harness/c/env.h (ISO C contract of fgetc/getc/fread/ftell/ferror/clearerr/printf/fprintf/fputs/putchar/perror)",
    "token tables: the struct the decoder reads is generated natively on every run from the current build_mapping(); "
    "its agreement with doc/bbcbasic.5 (spec/tokens.json) is a separate obligation (tables.*)",
    "oracle = harness/c/ref.h, written from doc/bbcbasic.5 and doc/bbcbasic_to_text.1; where the documents are silent or "
    "contradictory (0x0D inside a line, 0x7F outside ARM/Mac, Mac 0xC8 0x99..0xA6, non-canonical 0x8D operands, bytes after "
    "the end marker, empty files, little-endian lines of length 3) the oracle makes no claim",
    "lines longer than the bound L and files longer than N bytes are outside the solver's verdict; the per-byte loop of "
    "decode_line carries no state besides in_string/len/p, which is the argument (not a solver result) for representativeness",
]

@prop("C03")
def c03(tier):
    L = 5 if tier == "quick" else 9
    N = 16 if tier == "quick" else 28
    obs = [B.tables_ob("C03", d, n) for d, n in B.DIALECTS]
    obs += [B.line_ob("C03", d, n, "CONFORM", L) for d, n in B.DIALECTS]
    # little-endian framing against the oracle at N=28: no verdict in 1500 s (measured) -> thorough LE bound is 20
    obs += [B.framing_ob("C03", "BE", "FRAME", N), B.framing_ob("C03", "LE", "FRAME", N if tier == "quick" else 20)]
    obs += [B.main_ob("C03", "FILES", ndebug=True)]
    return obs, dict(assumptions=BASIC_ASSUME, precheck=B.oracle_precheck)

@prop("C08")
def c08(tier):
    L = 5 if tier == "quick" else 9
    N = 20 if tier == "quick" else 40
    obs = [B.line_ob("C08", d, n, "SAFE", L) for d, n in B.DIALECTS]
    # little-endian framing at N=40 exceeds the memory budget (49M clauses); 28 bytes is the largest size measured to finish
    obs += [B.framing_ob("C08", "BE", "SAFE", N), B.framing_ob("C08", "LE", "SAFE", N if tier == "quick" else 28)]
    obs += [B.main_ob("C08", "SAFE", ndebug=True), B.main_ob("C08", "SAFE", ndebug=False)]
    obs += [B.mapping_safe_ob("C08")]
    return obs, dict(assumptions=BASIC_ASSUME)

@prop("C09")
def c09(tier):
    L = 5 if tier == "quick" else 9
    N = 12 if tier == "quick" else 20
    obs = [B.line_ob("C09", d, n, "REJECT", L) for d, n in B.DIALECTS]
    # two files per execution: N=20 gave no verdict in 1500 s; measured: BE N14 207 s, LE N14 1277 s (too close to the limit) -> thorough BE 14, LE 12
    obs += [B.framing_ob("C09", "BE", "FRAME", 12 if tier == "quick" else 14, nfiles=2), B.framing_ob("C09", "LE", "FRAME", 12, nfiles=2)]
    obs += [B.refmono_ob("C09", e, N) for e in ("BE", "LE")]
    obs += [B.main_ob("C09", "FILES", ndebug=True)]
    return obs, dict(assumptions=BASIC_ASSUME, precheck=B.oracle_precheck)

# ----------------------------------------------------------------------------- dfs/*.cc
import cxx_checks as X
CXX_ASSUME = [
    "the code checked is the LLVM IR clang-14 -O1 produces for the real dfs/*.cc (same -std=c++17, -DUSE_ZLIB, -DNDEBUG as the pinned build); "
    "the shipped binary is built by g++ -O2, so compiler-specific exploitation of undefined behaviour is outside the claim",
    "tools/ir2c.py translation (LLVM nsw/nuw flags are ignored: arithmetic wraps) -- validated on every run by running the gcc-built generated C "
    "and the g++-built real code on the same vectors",
    "stubs/vf_stubs.c: operator new never fails; out-of-line libstdc++ string members, C++ EH runtime and C-locale ctype modelled by hand",
]
W_CAT = "w_catalog.cc"
# exception-message construction (std::string concatenation with data-dependent lengths) is irrelevant to every
# property and costs tens of millions of clauses: the constructors' bodies are cut (object left zeroed).
EXC_CTORS = [r"^_ZN3DFS13BadFileSystemC[12]E", r"^_ZN3DFS13BaseExceptionC[12]E", r"^_ZN3DFS11FileIOErrorC[12]E", r"^_ZN3DFS12UnrecognizedC[12]E"]
CAT_FUNCS = ["dfs/dfs_catalog.h:CatalogEntry::{load_address,exec_address,file_length,start_sector,is_locked,directory,metadata_word}",
             "dfs/dfs_catalog.cc:CatalogEntry::CatalogEntry", "CatalogEntry::last_sector", "sign_extend"]

def ob_entry_fields(pid):
    return X.cxx_ob(pid, "entry_fields", W_CAT, "h_entry_fields",
        "all 16 name+metadata bytes symbolic: every accessor equals the bit-field definition of the DFS catalogue (each 2-bit field of the mixed byte "
        "decoded independently), last_sector arithmetic, sign extension at bit 17",
        "128 symbolic bits, no further bound", CAT_FUNCS, unwind=10)

def ob_sector_walk(pid, maxlen):
    k = maxlen // 256 + 2
    return X.cxx_ob(pid, "sector_walk.len%d" % maxlen, W_CAT, "h_sector_walk",
        "visit_file_body_piecewise on a recording medium and visitor: sectors start, start+1, ...; pieces 256,...,256,len-256(k-1); "
        "total = catalogued length; bytes handed on are those of the sector just read; unreadable sector => BadFileSystem; visitor can stop the walk",
        "metadata bytes symbolic with file length <= %d (<= %d sectors), failure/stop points symbolic, one symbolic probe offset per piece" % (maxlen, k - 1),
        CAT_FUNCS + ["CatalogEntry::visit_file_body_piecewise", "std::function invoker", "BadFileSystem::BadFileSystem (dfs/exceptions.cc)"],
        unwind=10, unwindset=[("read_block", 257), ("visit_file_body", k), ("h_sector_walk", max(9, k + 3)), ("X_strlen", 64), ("X_mem", 64)],
        defines=("NDEBUG", "WALK_MAXLEN=%d" % maxlen), weight_gb=3, noop_re=EXC_CTORS)

def ob_volume_access(pid):
    return X.cxx_ob(pid, "volume_access", W_CAT, "h_volume_access",
        "Volume::Access::read_block(lba) forwards origin+lba to the disc iff lba < volume length, otherwise fails without touching the disc",
        "origin, length 32-bit symbolic, lba 64-bit symbolic", ["dfs/dfs_volume.h:Volume::Access::read_block"],
        unwind=10, unwindset=[("read_block", 257)])

# ---- track decoding
W_TRACK = "w_track.cc"
W_GATE = "w_fm_gate.cc"
GATE_REPLACE_FM = ["_ZNK5Track9BitStream8scan_forEmmm=stub_scan_for", "_ZN12_GLOBAL__N_113copy_fm_bytesE=stub_copy_fm_bytes",
                   "_ZN12_GLOBAL__N_110fm_get_crcE=stub_get_crc", "_ZN3DFS9CRC16Base6updateEPKhS2_=stub_crc_update",
                   "_ZNK3DFS9CRC16Base3getEv=stub_crc_get", "_ZN5Track13self_test_crcEv=stub_self_test_crc"]
GATE_UNWIND = [("stub_copy_bytes", 8), ("hexdump", 40), ("X_strlen", 64), ("X_mem", 64), ("vf_ostream3num", 24),
               ("realloc_insert", 6), ("Destroy", 6), ("relocate", 6)]

def ob_reverse_bits(pid):
    return X.cxx_ob(pid, "reverse_bits", W_TRACK, "h_reverse_bits", "reverse_bit_order is bit reversal and an involution, all 256 bytes",
                    "8 symbolic bits", ["dfs/track.h:reverse_bit_order"], unwind=10)
def ob_crc_step(pid):
    return X.cxx_ob(pid, "crc_step", W_TRACK, "h_crc_step",
                    "CRC16Base::update over one byte = 8 steps of long division by x^16+x^12+x^5+1 for every 16-bit state and byte "
                    "(induction step of 'update computes CRC-16/CCITT for every message'); initial values 0xFFFF (CCITT) and 0 (XMODEM/tape)",
                    "16-bit state and two data bytes symbolic", ["dfs/crc16.cc:CRC16Base::update", "crc_cycle", "CCITT_CRC16", "TapeCRC"], unwind=10)
def ob_fm_gate(pid, maxe=12):
    return X.cxx_ob(pid, "fm_gate", W_GATE, "h_fm_gate",
                    "real decode_fm_track with scan_for/copy_fm_bytes/CRC replaced by contract stubs answering arbitrarily: the sectors yielded are exactly "
                    "the records with a good ID CRC, valid size code, a data (not deleted-data) mark and a good data CRC, carrying the address of that ID "
                    "and the bytes of that data field, whatever lies in between",
                    "every schedule of <= %d helper calls (found/not found, copy ok/failed, CRC residue zero/non-zero, any positions and bytes); "
                    "size codes 0-1 (128/256-byte sectors); verbose off" % maxe,
                    ["dfs/track_fm.cc:decode_fm_track", "find_record_address_mark lambda", "dfs/track.cc:decode_sector_address_and_size"],
                    unwind=maxe + 2, unwindset=GATE_UNWIND, replace=GATE_REPLACE_FM, clang_extra=["-fno-inline", "-DVF_INSTANTIATE_STRING"],
                    weight_gb=8, timeout=2400, object_bits=10)

W_HFE = "w_hfe.cc"
W_HXC = "w_hxc.cc"
def ob_hxc_adapter(pid, drop):
    return X.cxx_ob(pid, "hxc_adapter.drop%d" % drop, W_HXC, "h_hxc_adapter",
                    "HxcMfmFile::DataAccessAdapter::read_block(lba): the sector returned carries exactly the address (lba div spt, lba mod spt), or the read fails",
                    "2 tracks x 2 records, sector %s dropped by track decoding (constant per query), lba symbolic; 4 data bytes stand for 256" % (drop if drop < 4 else "none"),
                    ["dfs/img_hxcmfm.cc:HxcMfmFile::DataAccessAdapter::read_block"], unwind=8, defines=("NDEBUG", "HXC_DROP=%d" % drop))
def ob_hfe_adapter(pid, drop):
    return X.cxx_ob(pid, "hfe_adapter.drop%d" % drop, W_HFE, "h_hfe_adapter",
                    "HfeFile::DataAccessAdapter::read_block(lba) on side 0 or 1: the sector returned carries exactly the address (lba div spt, side, lba mod spt), "
                    "a decoded sector is found on either side, otherwise the read fails",
                    "2 tracks x 2 records, side symbolic, sector %s dropped (constant per query), lba symbolic" % (drop if drop < 4 else "none"),
                    ["dfs/img_hfe.cc:HfeFile::DataAccessAdapter::read_block", "find_sector", "dfs/track.cc:SectorAddress::operator=="], unwind=8,
                    defines=("NDEBUG", "HFE_DROP=%d" % drop))
def ob_copy_hfe(pid, n=5):
    return X.cxx_ob(pid, "copy_hfe.N%d" % n, W_HFE, "h_copy_hfe",
                    "copy_hfe (HFE v1 and v3 opcode interpreter) against the format description: every non-opcode byte yields its 8 cells MSB first; NOP/SETINDEX "
                    "take no operand; SETBITRATE consumes one operand byte of any value; RAND yields one unreadable byte; undefined opcodes are rejected",
                    "<= %d input bytes symbolic, v1/v3 symbolic; SKIPBITS (0xF3) excluded (specification not available offline, see DESIGN)" % n,
                    ["dfs/img_hfe.cc:copy_hfe", "is_hfe3_opcode", "premature_stream_end"], unwind=n + 3, unwindset=[("X_strlen", 64), ("vf_ostream3num", 24)],
                    defines=("NDEBUG", "HFE_BYTES=%d" % n), weight_gb=6, noop_re=[r"_M_realloc_insert"])
def ob_hfe_header(pid):
    return X.cxx_ob(pid, "hfe_header", W_HFE, "h_hfe_header", "decode_header field offsets and PicTrack offset/length (length rounded up to 512)",
                    "26 header bytes and 4 table bytes symbolic", ["dfs/img_hfe.cc:decode_header", "PicTrack", "le_word"], unwind=30, weight_gb=3)

@prop("C05")
def c05(tier):
    drops = (1, 4) if tier == "quick" else (0, 1, 2, 3, 4)
    obs = [ob_reverse_bits("C05"), ob_crc_step("C05"), ob_copy_hfe("C05", 5 if tier == "quick" else 7), ob_hfe_header("C05")]
    obs += [ob_hfe_adapter("C05", d) for d in drops] + [ob_hxc_adapter("C05", d) for d in drops]
    return obs, dict(assumptions=CXX_ASSUME)

@prop("C06")
def c06(tier):
    # ob_fm_gate (decoder glue under contract stubs): no verdict within 40 min / out of memory at the SAT stage (DESIGN.md 10) -> not registered
    drops = (0, 3, 4) if tier == "quick" else (0, 1, 2, 3, 4)
    obs = [ob_crc_step("C06")] + [ob_hxc_adapter("C06", d) for d in drops] + [ob_hfe_adapter("C06", d) for d in drops]
    return obs, dict(assumptions=CXX_ASSUME)
    return obs, dict(assumptions=CXX_ASSUME)

W_ID = "w_identify.cc"
ID_UNWIND = [("X_strlen", 64), ("X_mem", 64), ("symbolic_sector", 258), ("h_watford", 258), ("h_fragment.0", 258), ("h_fragment.1", 258), ("smells_like_watford", 34),
             ("CatalogFragment", 34), ("find_last_not_of", 16), ("rfind", 16)]
def ob_watford(pid):
    return X.cxx_ob(pid, "watford", W_ID, "h_watford",
                    "smells_like_watford on an arbitrary sector 1 and arbitrary first 8 bytes of sector 2 (or unreadable sector 2): true iff the 0xAA "
                    "recognition bytes are present and no catalogued entry has 10-bit start sector 2; smells_like_hdfs = flag bit",
                    "256+8 symbolic bytes, medium size 16-bit symbolic", ["dfs/identify.cc:smells_like_watford", "smells_like_hdfs", "eliminated_format"],
                    unwind=34, unwindset=ID_UNWIND)
def ob_fragment(pid, entries):
    return X.cxx_ob(pid, "fragment.E%d" % entries, W_ID, "h_fragment",
                    "CatalogFragment constructor on arbitrary catalogue sectors: title (12 chars, 7-bit, NUL-terminated, right-trimmed), cycle, boot option, "
                    "total sectors, entry count, and entry k (symbolic k) built from bytes 8+8k of both sectors incl. name()/directory()",
                    "first %d bytes of both sectors symbolic, <= %d entries" % (8 + 8 * entries, entries),
                    ["dfs/dfs_catalog.cc:CatalogFragment::CatalogFragment", "convert_title", "CatalogEntry::name", "CatalogFragment::entries", "stringutil::rtrim"],
                    unwind=14, unwindset=[("h_fragment.0", 258), ("h_fragment.1", 258), ("CatalogFragmentC2", max(entries + 2, 10)), ("realloc_insert", entries + 2),
                                          ("X_strlen", 64), ("X_mem", 16), ("find_last_not_of", 14), ("rfind", 14)],
                    defines=("NDEBUG", "FRAG_ENTRIES=%d" % entries), weight_gb=6)

@prop("C13")
def c13(tier):
    obs = [ob_watford("C13")]
    return obs, dict(assumptions=CXX_ASSUME)

@prop("C02")
def c02(tier):
    obs = [ob_entry_fields("C02"), ob_fragment("C02", 3 if tier == "quick" else 8), ob_crc_step("C02")]
    return obs, dict(assumptions=CXX_ASSUME)

W_NAMES = "w_names.cc"
@prop("C15")
def c15(tier):
    obs = [X.cxx_ob("C15", "case_insensitive", W_NAMES, "h_case_insensitive",
                    "case_insensitive_less / case_insensitive_equal = lexicographic comparison of the lower-cased strings",
                    "two strings of <= 3 arbitrary 7-bit characters", ["dfs/stringutil.cc:case_insensitive_less", "case_insensitive_equal"],
                    unwind=10, unwindset=[("X_strlen", 64)], weight_gb=4),
           X.cxx_ob("C15", "has_name", W_NAMES, "h_has_name",
                    "CatalogEntry::has_name: found iff directory identical and name equal ignoring case",
                    "catalogue names and wanted names of <= 3 printable characters, any directory characters",
                    ["dfs/dfs_catalog.cc:CatalogEntry::has_name", "CatalogEntry::name", "stringutil::rtrim", "case_insensitive_equal"],
                    unwind=10, unwindset=[("X_strlen", 64)], weight_gb=4)]
    shapes = [(1, 1), (2, 2), (3, 2)] if tier == "quick" else [(1, 1), (1, 2), (2, 1), (2, 2), (3, 1), (3, 2), (3, 3), (4, 2), (4, 3)]
    if os.environ.get("VF_WIP"): obs += [ob_wildcard("C15", w, n) for w, n in shapes]      # work in progress: not part of the registered check yet
    return obs, dict(assumptions=CXX_ASSUME)

def ob_wildcard(pid, wlen, nlen):
    return X.cxx_ob(pid, "wildcard.W%dN%d" % (wlen, nlen), "w_afsp.cc", "h_wildcard",
                    "AFSPMatcher (make_unique + matches) against the documented semantics: # = one character, * = any run, neither matching '.', letters ignore case, "
                    "every other character (all regular-expression metacharacters included) matches only itself; omitted drive/directory default to --drive 0 --dir $",
                    "every wildcard of exactly %d printable characters x every entry with a %d-character name and any directory character (names/directories not containing . : # *)" % (wlen, nlen),
                    ["dfs/afsp.cc:AFSPMatcher::AFSPMatcher", "AFSPMatcher::matches", "convert_wildcard_into_extended_regex", "extend_wildcard", "qualify", "transform_string_with_regex",
                     "dfs/regularexpression.h:RegularExpression", "dfs/driveselector.cc:VolumeSelector::parse"],
                    unwind=10, unwindset=[("convert_wildcard", 12), ("transform_string_with_regex", 12), ("AFSPMatcher", 12), ("X_strlen", 64), ("vf_string", 50), ("X_regcomp.0", 26), ("X_regcomp.1", 6), ("vrx_streq", 66), ("X_regexec", 26), ("vrx_", 26), ("X_regerror", 14),
                                          ("h_wildcard", 8), ("glob", 8), ("X_strtol", 26), ("range_initialize", 98), ("count_if", 50), ("realloc_insert", 8)],
                    defines=("NDEBUG", "VF_STRMODEL", "VF_STRCAP=48", "WLEN=%d" % wlen, "NLEN=%d" % nlen), weight_gb=6, timeout=1500,
                    noop_re=IO_CUT + [r"^_ZNSt6vectorIcSaIcEE17_M_realloc_insertIJ(RKc|c)EEE", r"^_ZNSt6vectorIcSaIcEE19_M_range_initializeIPKcEE"], clang_extra=["-fno-inline", "-DVF_INSTANTIATE_STRING"],
                    stubs=[STRMODEL_NOTE, "glibc regcomp/regexec/regerror/regfree replaced by the restricted POSIX ERE model in stubs/vf_stubs.c (fixed canonicalisation patterns + generated "
                           "element lists; any other construct is reported as unsupported); native replay and translator validation use the real glibc regex",
                           "std::vector<char> initial storage / growth replaced by a fixed-capacity model (stubs/vf_stubs.c)"])

# the iostream MODEL's own text building (number formatting, padding) is cut where only the safety of the code under test matters
STRMODEL_NOTE = "std::string replaced by the fixed-capacity value model harness/cxx/strmodel.h for the encoding (capacity overflow is asserted); the native replay and the translator validation run the same harness on the real std::string"
IO_CUT = [r"^_ZNSt10vf_ostream(3num|4text|3chr|3pad)E"]
# ---- C07: dfs fails cleanly (parsing kernels on arbitrary input; CBMC built-in checks + no escaped exception)
def ob_hxc_header(pid):
    return X.cxx_ob(pid, "hxc_header", W_HXC, "h_hxc_header", "read_and_verify_header on a file of arbitrary size and contents: never indexes past the bytes "
                    "actually read, never throws, accepts only complete headers", "file size 16-bit symbolic, every byte read symbolic",
                    ["dfs/img_hxcmfm.cc:read_and_verify_header", "le_word", "le_quad"], unwind=30, unwindset=[("X_strlen", 64), ("hexdump", 12), ("SymFile4read", 26)], weight_gb=6, noop_re=IO_CUT)
def ob_hxc_track_list(pid, n=4):
    return X.cxx_ob(pid, "hxc_track_list.N%d" % n, W_HXC, "h_hxc_track_list", "get_track_metadata on an arbitrary file: terminates at the end of the file, "
                    "never indexes past a short read, either yields a complete list or throws a std::exception",
                    "file holding <= %d track-list entries, header tracks 1..65535, sides 1..2, all bytes symbolic" % n,
                    ["dfs/img_hxcmfm.cc:HxcMfmFile::get_track_metadata", "std::map insert (rb-tree model)"], unwind=n + 3,
                    unwindset=[("X_strlen", 64), ("SymFile4read", 26), ("vf_string", 66)], defines=("NDEBUG", "HXC_LIST_MAX=%d" % n, "VF_STRMODEL", "VF_STRCAP=64"), weight_gb=8, noop_re=IO_CUT,
                    stubs=[STRMODEL_NOTE])
def ob_fragment_valid(pid, entries):
    return X.cxx_ob(pid, "fragment_valid.E%d" % entries, W_ID, "h_fragment_valid", "CatalogFragment constructor + valid() on arbitrary catalogue sectors, three formats: "
                    "no exception, no out-of-bounds access", "first %d bytes of both sectors symbolic" % (8 + 8 * entries),
                    ["dfs/dfs_catalog.cc:CatalogFragment::valid", "get_safe_name", "CatalogEntry::last_sector"], unwind=14,
                    unwindset=[("h_fragment_valid.0", 258), ("h_fragment_valid.1", 258), ("CatalogFragmentC2", max(entries + 2, 10)), ("realloc_insert", entries + 2),
                               ("CatalogFragment5valid", 14), ("X_strlen", 64), ("X_mem", 16), ("vf_ostream3num", 24), ("vf_string", 66)],
                    defines=("NDEBUG", "FRAG_ENTRIES=%d" % entries, "VF_STRMODEL", "VF_STRCAP=64"), weight_gb=8, timeout=2400, noop_re=[r"get_safe_name"] + IO_CUT,
                    stubs=[STRMODEL_NOTE])
def ob_opus_catalogue(pid):
    return X.cxx_ob(pid, "opus_catalogue", W_ID, "h_opus_catalogue", "OpusDiscCatalogue on an arbitrary sector 16: either BadFileSystem or volumes sorted, "
                    "contiguous and inside the recorded total", "sector 16 header and the first 3 volume slots symbolic (<= 3 volumes)",
                    ["dfs/opus_cat.cc:OpusDiscCatalogue::OpusDiscCatalogue", "VolumeLocation", "std::sort (<= 8 elements)"], unwind=12,
                    unwindset=[("h_opus_catalogue.0", 258), ("X_strlen", 64), ("vf_string", 66)], weight_gb=8, noop_re=EXC_CTORS + IO_CUT,
                    defines=("NDEBUG", "VF_STRMODEL", "VF_STRCAP=64"), stubs=[STRMODEL_NOTE])

@prop("C07")
def c07(tier):
    # ob_hxc_track_list (symex 830 s / 1.9M steps, then no verdict in 900 s) and ob_opus_catalogue (std::sort over symbolic volume
    # slots: symex alone > 900 s) are NOT registered: no verdict within budget (DESIGN.md 10).
    obs = [ob_hxc_header("C07"), ob_fragment_valid("C07", 2 if tier == "quick" else 3), ob_fileview("C07", 0), ob_fileview("C07", 10), ob_fileview_far("C07"), ob_blockwise("C07"), ob_watford("C07"),
           ob_hfe_header("C07"), ob_copy_hfe("C07", 5), ob_zlib_error_code("C07"), ob_hfe_header_dump("C07")] + [ob_catalog_unreadable("C07", r) for r in ((1,) if tier == "quick" else (0, 1, 2))]
    return obs, dict(assumptions=CXX_ASSUME + ["C07 is claimed per parsing kernel with the file modelled as an arbitrary buffer; whole-program runs, getopt and the "
                                                "command bodies are outside the claim; 'terminates promptly' is replaced by passing unwinding assertions"])

W_GZ = "w_gz.cc"
def ob_decompressed_read(pid):
    return X.cxx_ob(pid, "decompressed_read", W_GZ, "h_decompressed_read", "DecompressedFile::read(pos, len) returns min(len, size-pos) bytes, the bytes at that position "
                    "(the contract of OsFile::read that the image readers rely on)", "file of <= 24 symbolic bytes, pos < 40, len < 20",
                    ["dfs/img_gzfile.cc:DecompressedFile::read"], unwind=50, weight_gb=4,
                    stubs=["fseek/fread over an in-memory file (stubs/vf_stubs.c vfz_*)"])
def ob_zlib_error_code(pid):
    return X.cxx_ob(pid, "zlib_error_code", W_GZ, "h_zlib_error_code", "check_zlib_error_code(c) returns iff c == Z_OK; every other status throws a std::exception",
                    "32-bit symbolic status", ["dfs/img_gzfile.cc:check_zlib_error_code"], unwind=10, unwindset=[("X_strlen", 64)], noop_re=EXC_CTORS + [r"FixedDecompressionErrorC[12]"])
@prop("C10")
def c10(tier):
    return [ob_decompressed_read("C10"), ob_zlib_error_code("C10")], dict(assumptions=CXX_ASSUME + ["zlib itself and the operating system are trusted; the inflate loop protocol is not encoded"])

MOUNT_STUB = "_ZNK3DFS20StorageConfiguration5mountERKNS_14VolumeSelectorE=stub_mount"
W_CMDS = "w_cmds.cc"
W_EXTRACT = "w_extract.cc"
CMD_UNWIND = [("collect_nums", 200), ("h_cmd_free.0", 200), ("h_cmd_space.0", 200), ("h_cmd_free", 12), ("h_cmd_space", 12), ("X_strlen", 64), ("X_mem", 16), ("vf_ostream3num", 24), ("make_disc", 4), ("cout_num", 200), ("realloc_insert", 6), ("vf_rb", 6), ("Rb_tree", 6), ("vf_s_copy", 33), ("vf_s_set", 33), ("vf_mem", 33), ("vf_string", 42)]
def ob_cmd_free(pid, entries=2, watford=False):
    return X.cxx_ob(pid, "cmd_free.%sE%d" % ("W" if watford else "", entries), W_CMDS, "h_cmd_free", "CommandFree::invoke on an in-memory %s drive with a symbolic well-formed catalogue: " % ("Watford DFS (62-file catalogue, second half empty)" if watford else "Acorn DFS") +
                    "prints free/used files, sectors (hex) and bytes with used = max(catalogue sectors, highest file end)",
                    "exactly %d catalogue entries (constant per query) with symbolic start/length (non-overlapping, descending), total sectors 3..800" % entries,
                    ["dfs/cmd_free.cc:CommandFree::invoke", "dfs/storage.cc:StorageConfiguration::mount", "mount_fs", "connect_drives", "dfs/dfs_filesystem.cc:FileSystem::FileSystem",
                     "dfs/dfs_volume.cc:init_volumes", "Volume::Volume", "dfs/dfs_catalog.cc:Catalog::Catalog", "Catalog::entries"],
                    unwind=8, unwindset=CMD_UNWIND, defines=("NDEBUG", "CMD_ENTRIES=%d" % entries) + (("CMD_WATFORD",) if watford else ()), weight_gb=10, timeout=1500, noop_re=EXC_CTORS, replace=[MOUNT_STUB])
def ob_map_sectors(pid, entries=2):
    return X.cxx_ob(pid, "map_sectors.E%d" % entries, W_CMDS, "h_map_sectors", "Catalog::map_sectors on the same symbolic catalogue: the catalogue sectors are labelled catalogue, every file with a body "
                    "owns exactly start .. start+ceil(len/256)-1 (offset by the volume origin), a zero-length file owns nothing",
                    "exactly %d entries, symbolic start/length, symbolic 16-bit volume origin" % entries,
                    ["dfs/dfs_catalog.cc:Catalog::map_sectors", "Catalog::entries", "CatalogEntry::last_sector", "Volume::Volume"],
                    unwind=8, unwindset=CMD_UNWIND + [("h_map_sectors", 12)], defines=("NDEBUG", "CMD_ENTRIES=%d" % entries, "VF_STRMODEL", "VF_STRCAP=40"), weight_gb=6, timeout=900, noop_re=EXC_CTORS,
                    replace=["_ZN3DFS9SectorMap18add_catalog_sectorEjRKNS_14VolumeSelectorE=stub_add_catalog_sector", "_ZN3DFS9SectorMap16add_file_sectorsEjjRKNS_14ParsedFileNameE=stub_add_file_sectors"],
                    stubs=["SectorMap::add_catalog_sector / add_file_sectors replaced by recorders (one std::map node per sector otherwise)", STRMODEL_NOTE])
def ob_cmd_space(pid, entries=2):
    return X.cxx_ob(pid, "cmd_space.E%d" % entries, W_CMDS, "h_cmd_space", "CommandSpace::invoke on the same drive: lists exactly the maximal runs of unallocated sectors in disc order "
                    "and their sum = total - catalogue - file sectors", "<= %d entries as cmd_free" % entries,
                    ["dfs/cmd_space.cc:CommandSpace::invoke", "select_volumes", "Catalog::get_catalog_in_disc_order"],
                    unwind=8, unwindset=CMD_UNWIND, defines=("NDEBUG", "CMD_ENTRIES=%d" % entries), weight_gb=12, timeout=1500,
                    noop_re=EXC_CTORS + [r"^_ZNSt6vectorIjSaIjEE17_M_realloc_insertIJRKjEEE"], replace=[MOUNT_STUB],
                    stubs=["std::vector<unsigned>::_M_realloc_insert replaced by a fixed-capacity model (stubs/vf_stubs.c)"])
# ob_cmd_free(watford=True) (62-file Watford catalogue) is NOT registered: with two catalogue fragments the entry vectors have symbolic
# sizes and symbolic execution alone exceeds 1500 s even with no files (DESIGN.md 10); the Watford half of `free` is outside the claim.
@prop("C14")
def c14(tier):
    es = (0, 2) if tier == "quick" else (0, 1, 2, 3)
    return ([ob_cmd_free("C14", e) for e in es] + [ob_cmd_space("C14", e) for e in es]
            + [ob_map_sectors("C14", e) for e in ((2,) if tier == "quick" else (1, 2, 3))]), dict(assumptions=CXX_ASSUME)

def ob_extract_paths(pid, tag="out", dest="out", io=False):
    return X.cxx_ob(pid, ("extract_io." if io else "extract_paths.") + tag, W_EXTRACT, "h_extract_paths", "CommandExtractFiles::invoke on an in-memory drive with one catalogued file whose 8 name/directory bytes are arbitrary: "
                    "every host file opened lies directly inside the destination directory", "7 name bytes + directory byte symbolic, destination %r (constant per query)" % dest,
                    ["dfs/cmd_extract_files.cc:CommandExtractFiles::invoke", "create_inf_file", "CatalogEntry::name", "stringutil::rtrim"],
                    unwind=10, unwindset=CMD_UNWIND + [("h_extract_paths", 20)], weight_gb=10, timeout=1500, noop_re=EXC_CTORS + IO_CUT,
                    defines=("NDEBUG", 'DEST="%s"' % dest, "VF_STRMODEL", "VF_STRCAP=40") + (("EXTRACT_IO",) if io else ()),
                    replace=[MOUNT_STUB, "_ZNK3DFS12CatalogEntry25visit_file_body_piecewiseERNS_10DataAccessESt8functionIFbPKhS5_EE=stub_visit"],
                    stubs=["std::ofstream modelled by harness/cxx/iomodel.h (records the path of every file opened)", STRMODEL_NOTE])
@prop("C12")
def c12(tier):
    dests = [("out", "out"), ("d_slash", "d/")] if tier == "quick" else [("out", "out"), ("out_slash", "out/"), ("d", "d"), ("d_slash", "d/")]
    return [ob_extract_paths("C12", t, d) for t, d in dests], dict(assumptions=CXX_ASSUME)

def ob_hexdump(pid, n):
    return X.cxx_ob(pid, "hexdump.n%d" % n, W_TRACK, "h_hexdump", "hexdump_bytes row format (offset, 8 hex cells, ** padding, printable column); stream flags restored",
                    "body of %d symbolic bytes (length constant per query: 0, 3, 8, 9 cover empty, partial row, full row, two rows)" % n,
                    ["dfs/hexdump.cc:hexdump_bytes", "cleanup.h:ostream_flag_saver"], unwind=12, unwindset=[("h_hexdump", 200)], weight_gb=4, defines=("NDEBUG", "DUMP_N=%d" % n))
@prop("C18")
def c18(tier):
    obs = [X.cxx_ob("C18", "verbose_watford", W_ID, "h_verbose_watford", "smells_like_watford run with --verbose off and on over the same medium: same verdict, same reads, "
                    "nothing on standard output, additions only on standard error", "256+8 symbolic bytes",
                    ["dfs/identify.cc:smells_like_watford", "eliminated_format"], unwind=34, unwindset=ID_UNWIND + [("h_verbose_watford", 258)]),
           # verbose_copy_hfe (copy_hfe twice, --verbose off/on): out of memory at the SAT stage even for 2 input bytes -> not registered
           ob_hexdump("C18", 9), ob_hfe_header_dump("C18")]
    return obs, dict(assumptions=CXX_ASSUME)

W_STOR = "w_storage.cc"
@prop("C16")
def c16(tier):
    obs = [X.cxx_ob("C16", "surface_arith", W_STOR, "h_surface_arith",
                    "opposite_surface / corresponding_side_of_next_device / next for every 32-bit drive number: same group of four, other side, involution, no wrap-around",
                    "32 symbolic bits", ["dfs/driveselector.cc:SurfaceSelector::opposite_surface", "corresponding_side_of_next_device", "next"], unwind=6),
           X.cxx_ob("C16", "sequence_fits", W_STOR, "h_sequence_fits",
                    "check_sequence_fits(start, k, occupied) is true iff the k slots start, start+2, ... are free and the opposite surface of start is free",
                    "start 0..15, k 1..3, arbitrary occupancy of drives 0..23 through the real std::function", ["dfs/storage.cc:check_sequence_fits"], unwind=6)]
    return obs, dict(assumptions=CXX_ASSUME)

W_IMG = "w_image.cc"
def ob_fileview(pid, take):
    return X.cxx_ob(pid, "fileview.take%d" % take, W_IMG, "h_fileview",
                    "FileView::read_block: fails iff take==0 or sector >= total, else asks the file for sector skip + (s div take)*(take+leave) + s mod take",
                    "take = %d (constant; symbolic take stalls every back end), skip 32-bit, leave/total 16-bit, sector 20-bit symbolic" % take,
                    ["dfs/img_fileio.cc:FileView::read_block", "dfs/dfs.h:safe_unsigned_multiply"], unwind=6, unwindset=[("X_strlen", 64)],
                    defines=("NDEBUG", "FV_TAKE=%d" % take))
def ob_fileview_far(pid):
    return X.cxx_ob(pid, "fileview.far", W_IMG, "h_fileview_far", "FileView::read_block with any 64-bit sector >= total fails without touching the file",
                    "all parameters symbolic (64-bit sector)", ["dfs/img_fileio.cc:FileView::read_block"], unwind=6, unwindset=[("X_strlen", 64)])
def ob_blockwise(pid):
    return X.cxx_ob(pid, "blockwise", W_IMG, "h_blockwise", "FilePresentedBlockwise::read_block(n) reads 256 bytes at byte offset 256n; a short read yields no sector",
                    "file size and sector number 32-bit symbolic, one symbolic probe byte", ["dfs/img_sdf.cc:FilePresentedBlockwise::read_block"], unwind=6, weight_gb=4)
def ob_mmb_views(pid):
    return X.cxx_ob(pid, "mmb_views", W_IMG, "h_mmb_views", "MmbFile constructor on a slot table with symbolic status bytes: slot k is usable iff its status is 0x00/0x0F and then "
                    "starts 32 + 800k sectors into the file (8192 + 204800k bytes), 800 contiguous sectors", "status bytes of slots 0..3 symbolic, slots 4..510 read-write; checked slot symbolic in 0..4",
                    ["dfs/img_mmb.cc:MmbFile::MmbFile", "dfs/img_sdf.cc:ViewFile::add_view", "FilePresentedBlockwise::read_block", "FileView::unformatted_device"],
                    unwind=18, unwindset=[("MmbFileC2", 34), ("X_strlen", 64), ("realloc_insert", 520), ("relocate", 520), ("Destroy", 520), ("MmbTable4read", 18), ("uninit", 520), ("vf_string", 42)],
                    weight_gb=12, timeout=1500, noop_re=IO_CUT + EXC_CTORS + [r"CachedDeviceD[02]Ev", r"ViewFileD[02]Ev"], replace=["_ZN3DFS8ViewFile8add_viewERKNS_8internal8FileViewE=stub_add_view"],
                    defines=("NDEBUG", "VF_STRMODEL", "VF_STRCAP=40"), stubs=[STRMODEL_NOTE, "destructor of the block cache cut (memory release only)"])
TAKES_QUICK = [0, 10, 18, 800]
TAKES_ALL = [0, 10, 16, 18, 350, 400, 560, 630, 640, 720, 800, 1280, 1440]

@prop("C04")
def c04(tier):
    obs = [ob_fileview("C04", t) for t in (TAKES_QUICK if tier == "quick" else TAKES_ALL)] + [ob_fileview_far("C04"), ob_blockwise("C04")] + [ob_get_arg("C04", n) for n in ((2,) if tier == "quick" else (1, 2, 3))]
    # ob_mmb_views is NOT registered: the MmbFile constructor's 511-slot loop with its exception clean-up paths (virtual destructors
    # of the view/cache objects) makes symbolic execution alone exceed 900 s in every variant tried (DESIGN.md 10).
    return obs, dict(assumptions=CXX_ASSUME)

@prop("C01")
def c01(tier):
    obs = [ob_entry_fields("C01"), ob_sector_walk("C01", 1024 if tier == "quick" else 4096), ob_volume_access("C01")] + [ob_hexdump("C01", n) for n in ((3, 9) if tier == "quick" else (0, 3, 8, 9))]
    return obs, dict(assumptions=CXX_ASSUME)

@prop("C17")
def c17(tier):
    obs = [ob_volume_access("C17"), ob_fileview_far("C17")] + [ob_fileview("C17", t) for t in ((10, 800) if tier == "quick" else TAKES_ALL)]
    obs += [ob_hfe_adapter("C17", 4), ob_hxc_adapter("C17", 4)]
    return obs, dict(assumptions=CXX_ASSUME)

@prop("C11")
def c11(tier):
    L = 5 if tier == "quick" else 8
    ds = [("6502", 0), ("ARM", 2)] if tier == "quick" else B.DIALECTS
    obs = [B.line_ob("C11", d, n, "IOFAIL", L) for d, n in ds]
    obs += [B.main_ob("C11", "IOFAIL", ndebug=True)]
    obs += [ob_sector_walk("C11", 1024)]      # extract-files: a failed write (visitor returns false) stops the walk and is reported to the caller
    obs += [ob_extract_paths("C11", "io", "out", io=True)]   # extract-files: success only if every open/write/close of every output file succeeded
    if os.environ.get("VF_WIP"): obs += [ob_main_exit("C11")]   # WIP, not registered: dfs main() exit path (no verdict yet: check_consistency/make_option_help build a std::map of long strings; symex > 500 s)
    return obs, dict(assumptions=BASIC_ASSUME + ["stdout failure model: each stdout call may report failure (and set the error indicator) from a "
        "nondeterministically chosen call on, or be accepted into a buffer that fails at the next fflush -- ISO C guarantees only, no glibc specifics"])

@prop("C19")
def c19(tier):
    """Both build flavours are compared with the same oracle: equal to the oracle => equal to each other."""
    L = 5 if tier == "quick" else 8
    N = 12 if tier == "quick" else 20
    ds = [("6502", 0), ("PDP11", 5), ("ARM", 2)] if tier == "quick" else B.DIALECTS
    obs = []
    for nd in (True, False):
        obs += [B.line_ob("C19", d, n, "CONFORM", L, ndebug=nd) for d, n in ds]
        obs += [B.line_ob("C19", d, n, "REJECT", L, ndebug=nd) for d, n in ds[:2]]
        obs += [B.framing_ob("C19", e, "FRAME", N, ndebug=nd) for e in ("BE", "LE")]
        obs += [B.main_ob("C19", "SAFE", ndebug=nd), B.main_ob("C19", "FILES", ndebug=nd)]
    return obs, dict(assumptions=BASIC_ASSUME + ["C19 is decided by comparing BOTH build flavours (-DNDEBUG and assertions enabled, where a failing "
        "assert is itself a reported property) against the same oracle on the same symbolic inputs; agreement with the oracle on accepted and "
        "rejected inputs implies agreement with each other there"])

def cli_replay(pid, ob, values, outdir):
    kind = ob.result["spec"]["cli"]["kind"]
    if kind == "basic-file":
        return B.cli_replay_file(ob, values, outdir)
    return None


# ---- obligations added late in the session (regression coverage of repaired defects)
def ob_hfe_header_dump(pid):
    return X.cxx_ob(pid, "hfe_header_dump", W_HFE, "h_hfe_header_dump", "operator<<(ostream&, picfileformatheader) (the --verbose header dump) on arbitrary header bytes: "
                    "nothing inside the header (in particular the non-terminated 8-byte signature) is streamed as a C string, output goes to the given stream only",
                    "26 header bytes symbolic", ["dfs/img_hfe.cc:operator<<(picfileformatheader)", "decode_header"], unwind=30,
                    unwindset=[("h_hfe_header_dump", 2000), ("X_strlen", 64)], weight_gb=4)
# ob_hfe_ctor_degenerate is NOT registered: no verdict in 1200 s (the whole HfeFile constructor with its clean-up paths); regression seed fix11-revert stays missed.
def ob_hfe_ctor_degenerate(pid):
    return X.cxx_ob(pid, "hfe_ctor_degenerate", W_HFE, "h_hfe_ctor_degenerate", "HfeFile constructor on a header that announces no tracks or no sides: rejected with a dfs exception "
                    "(never an image without surfaces, never undefined behaviour)", "header bytes 8..25 symbolic, signature HXCPICFE, tracks == 0 or sides == 0",
                    ["dfs/img_hfe.cc:HfeFile::HfeFile", "decode_header", "read_track_offset_lut", "read_all_sectors (zero tracks)"], unwind=12,
                    unwindset=[("X_strlen", 64), ("vf_string", 66), ("X_mem", 16), ("HeaderOnlyFile4read", 28), ("h_hfe_ctor_degenerate", 30)], defines=("NDEBUG", "VF_STRMODEL", "VF_STRCAP=64"), weight_gb=8, timeout=1200,
                    noop_re=IO_CUT + [r"InvalidHfeFileC[12]E", r"UnsupportedHfeFileC[12]E"] + EXC_CTORS, stubs=[STRMODEL_NOTE],
                    havoc=("_ZN5Track15decode_fm_trackERKNS_9BitStreamEb", "_ZN5Track16decode_mfm_trackERKNS_9BitStreamEb", "_ZN3DFS17AbstractImageFileD2Ev"))
def ob_catalog_unreadable(pid, readable=1):
    return X.cxx_ob(pid, "catalog_unreadable.R%d" % readable, W_CMDS, "h_catalog_unreadable", "Volume/Catalog constructors on a drive with 0, 1 or 2 readable sectors: an unreadable catalogue is reported by "
                    "throwing a BadFileSystem OBJECT (a thrown pointer would escape every handler)", "%d readable sector(s) (constant per query)" % readable,
                    ["dfs/dfs_volume.cc:Volume::Volume", "dfs/dfs_catalog.cc:Catalog::Catalog", "CatalogFragment::CatalogFragment"], unwind=8,
                    unwindset=CMD_UNWIND + [("h_catalog_unreadable", 12)], defines=("NDEBUG", "CMD_ENTRIES=0", "CAT_READABLE=%d" % readable), weight_gb=6, timeout=900, noop_re=EXC_CTORS + IO_CUT)
def ob_main_exit(pid):
    return X.cxx_ob(pid, "main_exit", "w_main.cc", "h_main_exit", "the real dfs main() from command lookup to return: exit status 0 only if std::cout accepted every write (it may start refusing "
                    "at any insertion or at the final flush), status in {0,1,2}, non-zero status with a diagnostic on std::cerr, no exception escapes; the command either "
                    "succeeds, fails or throws BadFileSystem", "command line `dfs cat` (no global options: getopt_long contract stub returns -1 at once); harness command with 3 insertions",
                    ["dfs/main.cc:main", "dfs/main.cc:exit_status", "dfs/main.cc:check_consistency", "dfs/commands.cc:CIReg::get_command"], unwind=8,
                    unwindset=[("X_strlen", 130), ("h_main_exit", 26), ("vf_string", 130), ("X_mem", 130)], defines=("NDEBUG", "VF_STRMODEL", "VF_STRCAP=128"), weight_gb=6, timeout=900, 
                    stubs=[STRMODEL_NOTE, "getopt_long: contract stub (no global options)", "make_image_file / CommandHelp: not reachable without global options (havoc)"])
def ob_get_arg(pid, alen):
    return X.cxx_ob(pid, "get_arg.A%d" % alen, "w_dump.cc", "h_get_arg", "dump-sector's get_arg: a track/sector argument is accepted iff it is a decimal number in 0..limit and is taken at its value",
                    "every argument string of exactly %d characters, every 16-bit limit" % alen, ["dfs/cmd_dump.cc:get_arg"], unwind=8,
                    unwindset=[("X_strlen", 64), ("vf_string", 26), ("X_strtol", 26), ("h_get_arg", 6)], defines=("NDEBUG", "VF_STRMODEL", "VF_STRCAP=24", "ALEN=%d" % alen), weight_gb=4,
                    noop_re=IO_CUT, stubs=[STRMODEL_NOTE])
