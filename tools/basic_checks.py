"""Obligations for the C units (basic/*.c): properties C03, C08, C09, C11, C19."""
import os, json
from vlib import *

HC = os.path.join(ROOT, "harness", "c")
DIALECTS = [("6502", 0), ("Z80", 1), ("ARM", 2), ("Windows", 3), ("Mac", 4), ("PDP11", 5)]
BIG = {"6502", "ARM", "Mac", "PDP11"}
LINES_C = os.path.join(REPO, "basic", "lines.c")
_lock = threading.Lock()
_prepared = {}

def prepare_dialect(name, num):
    """Builds (once per run) gen_map from the CURRENT tokens.c and emits map.h/spec_tables.h."""
    with _lock:
        if name in _prepared: return _prepared[name]
        d = subdir("basic-" + name)
        gm = os.path.join(scratch(), "gen_map")
        if not os.path.exists(gm):
            r = sh(["gcc", "-O1", "-I", os.path.join(REPO, "basic"), os.path.join(HC, "gen_map.c"),
                    os.path.join(REPO, "basic", "tokens.c"), "-o", gm])
            if r["rc"] != 0: raise RuntimeError("gen_map build failed:\n" + r["out"])
        r = sh([gm, str(num)])
        if r["rc"] != 0: raise RuntimeError("gen_map failed (build_mapping rejected dialect %d): %s" % (num, r["out"]))
        open(os.path.join(d, "map.h"), "w").write(r["out"])
        r = sh([sys.executable, os.path.join(ROOT, "tools", "gen_spec_c.py"), name])
        if r["rc"] != 0: raise RuntimeError(r["out"])
        open(os.path.join(d, "spec_tables.h"), "w").write(r["out"])
        _prepared[name] = d
        return d

def common_defs():
    return ['REPO_LINES_C="%s"' % LINES_C]

LINE_FUNCS = ["basic/lines.c:decode_line", "handle_token", "handle_special_token", "handle_pdp_quit",
              "print_target_line_number", "count", "is_invalid", "premature_eol"]
FRAME_FUNCS = ["basic/lines.c:decode_big_endian_program", "decode_little_endian_program", "expect_char", "premature_eof"]
ENV_STUBS = ["stdio model harness/c/env.h (fgetc/getc/fread/ftell/ferror/clearerr over a symbolic byte array; "
             "printf/fprintf/fputs/putchar/perror as an event log; only the 4 stdout formats of lines.c accepted)",
             "token map precomputed natively each run from the real build_mapping (harness/c/gen_map.c)"]

def line_ob(pid, dname, dnum, mode, L, extra_defs=(), tag=""):
    oid = "%s.line.%s.%s.L%d%s" % (pid, mode.lower(), dname, L, tag)
    def build():
        d = prepare_dialect(dname, dnum)
        defs = common_defs() + ["LMAX=%d" % L, "MODE_" + mode] + list(extra_defs)
        uw = {"decode_line.0": L + 1, "count.0": L + 1, "ref_line.0": L + 1, "ref_line.1": L + 1,
              "harness.0": L + 1, "harness.1": L + 7, "vf_streq.0": 8}
        cmd = cbmc_cmd([os.path.join(HC, "h_line.c")], "harness", uw, defs,
                       [os.path.join(REPO, "basic"), HC, d])
        native = dict(cc="gcc", files=[os.path.join(HC, "h_line.c"), os.path.join(HC, "native_rt.c")],
                      defines=defs, includes=[os.path.join(REPO, "basic"), HC, d])
        return dict(cmd=cmd, native=native)
    what = {"CONFORM": "real decode_line == reference line decoder (events, acceptance, indent-out) on every accepted line",
            "REJECT": "every line the reference rejects makes the real decode_line return false with a diagnostic",
            "SAFE": "decode_line on arbitrary bytes: no bounds/pointer/overflow/shift violation, terminates, false => diagnostic"}[mode]
    return Obligation(oid, what + " [dialect %s]" % dname,
                      "data[%d] symbolic, len<=%d, line number 0..65535, indent in [-8,8], listo 0..7, 0<=file_pos<=2^31; unwind %d" % (L, L, L + 1),
                      LINE_FUNCS, build, weight_gb=2 + L * 0.7, timeout=1500, stubs=ENV_STUBS)

def framing_ob(pid, endian, mode, N, nfiles=1):
    oid = "%s.framing.%s.%s.N%d.F%d" % (pid, mode.lower(), endian, N, nfiles)
    def build():
        d = subdir(oid)
        defs = common_defs() + [endian, "NIN=%d" % N, "NFILES=%d" % nfiles, "MODE_" + mode]
        gb, gb2 = os.path.join(d, "h.gb"), os.path.join(d, "h2.gb")
        cc = ["goto-cc", "-I", os.path.join(REPO, "basic"), "-I", HC]
        for x in defs: cc += ["-D", x]
        cc += [os.path.join(HC, "h_framing.c"), "-o", gb]
        r = sh(cc)
        if r["rc"] != 0: raise RuntimeError("goto-cc failed:\n" + r["out"])
        r = sh(["goto-instrument", "--replace-calls", "decode_line:decode_line_stub", gb, gb2])
        if r["rc"] != 0 or not os.path.exists(gb2): raise RuntimeError("goto-instrument failed:\n" + r["out"])
        fn = "decode_big_endian_program" if endian == "BE" else "decode_little_endian_program"
        per = 4 if endian == "BE" else 3
        uw = {fn + ".1": N // per + 2, "decode_line_stub.0": 257, "ref_frame.0": N // 4 + 3,
              "harness.4": N // 4 + 2, "vf_streq.0": 8}
        cmd = ["cbmc", gb2, "--function", "harness", "--unwind", str(N + 2), "--unwindset",
               ",".join("%s:%d" % kv for kv in uw.items()), "--unwinding-assertions", "--drop-unused-functions",
               "--no-malloc-may-fail", "--verbosity", "8", "--sat-solver", "cadical"] + CBMC_CHECKS
        native = dict(cc="gcc", files=[os.path.join(HC, "h_framing.c"), os.path.join(HC, "native_rt.c")],
                      defines=defs + ["decode_line_stub_native=1"], includes=[os.path.join(REPO, "basic"), HC],
                      note="native replay cannot redirect the static decode_line; framing counterexamples are replayed "
                           "through the command line instead")
        return dict(cmd=cmd, native=None, cli=dict(kind="basic-file", endian=endian))
    what = {"FRAME": "file framing == reference framing: same sequence of (line number, length, body bytes, indent-in) "
                     "handed to decode_line; accepted iff well-formed; rejected with diagnostic iff truncated/ill-framed; "
                     "each file depends only on its own bytes",
            "SAFE": "framing on arbitrary bytes: memory safety incl. the 1024-byte static buffer, termination, false => diagnostic"}[mode]
    return Obligation(oid, what + " [%s-endian decoder, %d file(s)]" % ("big" if endian == "BE" else "little", nfiles),
                      "%d file(s) of <= %d symbolic bytes each, symbolic length, listo 0..7; decode_line replaced by a "
                      "recording stub that reads all len bytes (unwind 257) and answers nondeterministically" % (nfiles, N),
                      FRAME_FUNCS, build, weight_gb=3 if N <= 16 else 6, timeout=1500,
                      stubs=ENV_STUBS + ["decode_line -> recording stub (goto-instrument --replace-calls); its contract "
                                         "(false => diagnostic, reads only data[0..len)) is what the line queries establish"])
