"""Obligations for the C units (basic/*.c): properties C03, C08, C09, C11, C19."""
import os, json
from vlib import *

HC = os.path.join(ROOT, "harness", "c")
DIALECTS = [("6502", 0), ("Z80", 1), ("ARM", 2), ("Windows", 3), ("Mac", 4), ("PDP11", 5)]
BIG = {"6502", "ARM", "Mac", "PDP11"}
LINES_C = os.path.join(REPO, "basic", "lines.c")
_lock = threading.Lock()
_prepared = {}

def prepare_dialect(name, num):
    """Builds (once per run) gen_map from the CURRENT tokens.c and emits map.h/spec_tables.h."""
    with _lock:
        if name in _prepared: return _prepared[name]
        d = subdir("basic-" + name)
        gm = os.path.join(scratch(), "gen_map")
        if not os.path.exists(gm):
            r = sh(["gcc", "-O1", "-I", os.path.join(REPO, "basic"), os.path.join(HC, "gen_map.c"),
                    os.path.join(REPO, "basic", "tokens.c"), "-o", gm])
            if r["rc"] != 0: raise RuntimeError("gen_map build failed:\n" + r["out"])
        r = sh([gm, str(num)])
        if r["rc"] != 0: raise RuntimeError("gen_map failed (build_mapping rejected dialect %d): %s" % (num, r["out"]))
        open(os.path.join(d, "map.h"), "w").write(r["out"])
        r = sh([sys.executable, os.path.join(ROOT, "tools", "gen_spec_c.py"), name])
        if r["rc"] != 0: raise RuntimeError(r["out"])
        open(os.path.join(d, "spec_tables.h"), "w").write(r["out"])
        _prepared[name] = d
        return d

def common_defs():
    return ['REPO_LINES_C="%s"' % LINES_C]

LINE_FUNCS = ["basic/lines.c:decode_line", "handle_token", "handle_special_token", "handle_pdp_quit",
              "print_target_line_number", "count", "is_invalid", "premature_eol"]
FRAME_FUNCS = ["basic/lines.c:decode_big_endian_program", "decode_little_endian_program", "expect_char", "premature_eof"]
ENV_STUBS = ["stdio model harness/c/env.h (fgetc/getc/fread/ftell/ferror/clearerr over a symbolic byte array; "
             "printf/fprintf/fputs/putchar/perror as an event log; only the 4 stdout formats of lines.c accepted)",
             "token map precomputed natively each run from the real build_mapping (harness/c/gen_map.c)"]

def line_ob(pid, dname, dnum, mode, L, extra_defs=(), tag="", ndebug=True):
    """ndebug=True compiles lines.c as the pinned build does (-DNDEBUG); False keeps assert() active
    (a failing assert is then a failed CBMC property)."""
    extra_defs = list(extra_defs) + (["NDEBUG"] if ndebug else [])
    oid = "%s.line.%s.%s.L%d.%s%s" % (pid, mode.lower(), dname, L, "ndebug" if ndebug else "assert", tag)
    def build():
        d = prepare_dialect(dname, dnum)
        defs = common_defs() + ["LMAX=%d" % L, "MODE_" + mode] + list(extra_defs)
        uw = {"decode_line.0": L + 1, "count.0": L + 1, "ref_line.0": L + 1, "ref_line.1": L + 1,
              "harness.0": L + 1, "harness.1": L + 7, "vf_streq.0": 8}
        cmd = cbmc_cmd([os.path.join(HC, "h_line.c")], "harness", uw, defs,
                       [os.path.join(REPO, "basic"), HC, d])
        native = dict(cc="gcc", files=[os.path.join(HC, "h_line.c"), os.path.join(HC, "native_rt.c")],
                      defines=defs, includes=[os.path.join(REPO, "basic"), HC, d])
        return dict(cmd=cmd, native=native)
    what = {"CONFORM": "real decode_line == reference line decoder (events, acceptance, indent-out) on every accepted line",
            "REJECT": "every line the reference rejects makes the real decode_line return false with a diagnostic",
            "SAFE": "decode_line on arbitrary bytes: no bounds/pointer/overflow/shift violation, terminates, false => diagnostic",
            "IOFAIL": "decode_line with stdout failing from an arbitrary call on: any lost output => returns false after perror"}[mode]
    return Obligation(oid, what + " [dialect %s]" % dname,
                      "data[%d] symbolic, len<=%d, line number 0..65535, indent in [-8,8], listo 0..7, 0<=file_pos<=2^31; unwind %d" % (L, L, L + 1),
                      LINE_FUNCS, build, weight_gb=2 + L * 0.7, timeout=1500, stubs=ENV_STUBS)

def framing_ob(pid, endian, mode, N, nfiles=1, ndebug=True):
    oid = "%s.framing.%s.%s.N%d.F%d.%s" % (pid, mode.lower(), endian, N, nfiles, "ndebug" if ndebug else "assert")
    def build():
        d = subdir(oid)
        defs = common_defs() + [endian, "NIN=%d" % N, "NFILES=%d" % nfiles, "MODE_" + mode] + (["NDEBUG"] if ndebug else [])
        gb, gb2 = os.path.join(d, "h.gb"), os.path.join(d, "h2.gb")
        cc = ["goto-cc", "-I", os.path.join(REPO, "basic"), "-I", HC]
        for x in defs: cc += ["-D", x]
        cc += [os.path.join(HC, "h_framing.c"), "-o", gb]
        r = sh(cc)
        if r["rc"] != 0: raise RuntimeError("goto-cc failed:\n" + r["out"])
        r = sh(["goto-instrument", "--replace-calls", "decode_line:decode_line_stub", gb, gb2])
        if r["rc"] != 0 or not os.path.exists(gb2): raise RuntimeError("goto-instrument failed:\n" + r["out"])
        fn = "decode_big_endian_program" if endian == "BE" else "decode_little_endian_program"
        per = 4 if endian == "BE" else 3
        uw = {fn + ".1": N // per + 2, "decode_line_stub.0": 257, "ref_frame.0": nfiles * (N // 3 + 1) + 2, "vf_streq.0": 8}
        cmd = ["cbmc", gb2, "--function", "harness", "--unwind", str(max(N + 2, nfiles * (N // 3 + 1) + 2)), "--unwindset",
               ",".join("%s:%d" % kv for kv in uw.items()), "--unwinding-assertions", "--drop-unused-functions",
               "--no-malloc-may-fail", "--verbosity", "8", "--sat-solver", "cadical"] + CBMC_CHECKS
        native = dict(cc="gcc", files=[os.path.join(HC, "h_framing.c"), os.path.join(HC, "native_rt.c")],
                      defines=defs + ["decode_line_stub_native=1"], includes=[os.path.join(REPO, "basic"), HC],
                      note="native replay cannot redirect the static decode_line; framing counterexamples are replayed "
                           "through the command line instead")
        return dict(cmd=cmd, native=None, cli=dict(kind="basic-file", endian=endian))
    what = {"FRAME": "file framing == reference framing: same sequence of (line number, length, body bytes, indent-in) "
                     "handed to decode_line; accepted iff well-formed; rejected with diagnostic iff truncated/ill-framed; "
                     "each file depends only on its own bytes",
            "SAFE": "framing on arbitrary bytes: memory safety incl. the 1024-byte static buffer, termination, false => diagnostic"}[mode]
    return Obligation(oid, what + " [%s-endian decoder, %d file(s)]" % ("big" if endian == "BE" else "little", nfiles),
                      "%d file(s) of <= %d symbolic bytes each, symbolic length, listo 0..7; decode_line replaced by a "
                      "recording stub that reads all len bytes (unwind 257) and answers nondeterministically" % (nfiles, N),
                      FRAME_FUNCS, build, weight_gb=3 if N <= 16 else 6, timeout=1500,
                      stubs=ENV_STUBS + ["decode_line -> recording stub (goto-instrument --replace-calls); its contract "
                                         "(false => diagnostic, reads only data[0..len)) is what the line queries establish"])

# ------------------------------------------------------------------ tables
def tables_ob(pid, dname, dnum):
    oid = "%s.tables.%s" % (pid, dname)
    def build():
        d = prepare_dialect(dname, dnum)
        defs = ["DIALECT_NUM=%d" % dnum, 'REPO_TOKENS_C="%s"' % os.path.join(REPO, "basic", "tokens.c")]
        uw = {"build_mapping.0": 130, "build_mapping.1": 112, "build_mapping.2": 258, "build_invalid_map.0": 258,
              "streq16.0": 17, "harness.0": 257}
        cmd = cbmc_cmd([os.path.join(HC, "h_tables.c")], "harness", uw, defs, [os.path.join(REPO, "basic"), HC, d],
                       extra=["--object-bits", "12", "--max-field-sensitivity-array-size", "300"])
        native = dict(cc="gcc", files=[os.path.join(HC, "h_tables.c"), os.path.join(HC, "native_rt.c")],
                      defines=defs, includes=[os.path.join(REPO, "basic"), HC, d])
        return dict(cmd=cmd, native=native)
    return Obligation(oid, "real build_mapping(%s) executed under CBMC: all 4x256 entries equal the table of doc/bbcbasic.5 "
                      "(spec/tokens.json) and equal the natively precomputed struct used by the line queries; build_mapping memory-safe" % dname,
                      "no symbolic input (dialect concrete, 256 indices unrolled by symex); unwind = table sizes",
                      ["basic/tokens.c:build_mapping", "build_map_c6", "build_map_c7", "build_map_c8", "build_invalid_map"],
                      build, weight_gb=3, timeout=900, stubs=["none (tokens.c included whole)"])

# ------------------------------------------------------------------ main()
def main_ob(pid, mode, ndebug=True, nfiles=3):
    oid = "%s.main.%s.%s" % (pid, mode.lower(), "ndebug" if ndebug else "assert")
    def build():
        d = subdir(oid)
        b = os.path.join(REPO, "basic")
        defs = ["MODE_" + mode, "NFILES=%d" % nfiles, 'REPO_MAIN_C="%s"' % os.path.join(b, "bbcbasic_to_text.c"),
                'REPO_DECODER_C="%s"' % os.path.join(b, "decoder.c"), 'REPO_TOKENS_C="%s"' % os.path.join(b, "tokens.c")]
        if ndebug: defs.append("NDEBUG")
        gb, gb2 = os.path.join(d, "h.gb"), os.path.join(d, "h2.gb")
        cc = ["goto-cc", "-I", b, "-I", HC]
        for x in defs: cc += ["-D", x]
        cc += [os.path.join(HC, "h_main.c"), "-o", gb]
        r = sh(cc)
        if r["rc"] != 0: raise RuntimeError("goto-cc failed:\n" + r["out"])
        r = sh(["goto-instrument", "--replace-calls", "build_mapping:build_mapping_stub", "--replace-calls",
                "internal_dump_all_dialects:internal_dump_all_dialects_stub", gb, gb2])
        if r["rc"] != 0 or not os.path.exists(gb2): raise RuntimeError("goto-instrument failed:\n" + r["out"])
        uw = {"build_mapping_stub.0": 257, "set_dialect.0": 12, "print_dialects.0": 12, "wrapped_main.0": 5,
              "wrapped_main.1": nfiles + 2, "strtol.0": 6, "strtol.1": 10, "getopt_long.0": 18}
        cmd = ["cbmc", gb2, "--object-bits", "12", "--function", "harness", "--unwind", "34", "--unwindset",
               ",".join("%s:%d" % kv for kv in uw.items()), "--unwinding-assertions", "--drop-unused-functions",
               "--no-malloc-may-fail", "--verbosity", "8", "--sat-solver", "cadical"] + CBMC_CHECKS
        return dict(cmd=cmd, native=None)
    what = {"SAFE": "main/wrapped_main on every command line shape: exit status in {0,1}, non-zero => diagnostic, option "
                    "state (dialect, listo) initialised before use, inputs opened \"rb\", no memory-safety violation",
            "FILES": "per-file loop: every operand decoded once, in order, with the same options and a fresh token map; "
                     "framing family chosen by dialect; '-' reads standard input; failures accumulate into the exit status",
            "IOFAIL": "exit path under stdout failure: any lost output (reported failure, or buffered data failing at "
                      "the final flush) => exit status != 0 and a diagnostic"}[mode]
    return Obligation(oid, what + (" [compiled with -DNDEBUG as the pinned build]" if ndebug else " [assertions enabled]"),
                      "<=3 options (kind/argument chosen by a getopt_long contract model reading the real option tables; "
                      "option arguments are arbitrary 3-char strings), <=%d operands each '-' or a name, fopen/fclose may fail" % nfiles,
                      ["basic/bbcbasic_to_text.c:main", "wrapped_main", "set_listo", "usage", "help", "basic/decoder.c:new_decoder",
                       "decode_file", "destroy_decoder", "basic/tokens.c:set_dialect", "print_dialects"],
                      build, weight_gb=6, timeout=1500,
                      stubs=ENV_STUBS + ["getopt_long/strtol/strcmp/fopen/fclose/fflush contract models (harness/c/h_main.c)",
                                         "decode_big_endian_program/decode_little_endian_program -> recording stubs",
                                         "build_mapping -> precondition-checking stub (dialect < NUM_DIALECTS)",
                                         "internal_dump_all_dialects -> protocol stub (body of the undocumented -D option not encoded)"])

def mapping_safe_ob(pid):
    return tables_ob(pid, "6502", 0)

# ------------------------------------------------------------------ reference monotonicity (prefix property of C09)
def refmono_ob(pid, endian, N):
    oid = "%s.refmono.%s.N%d" % (pid, endian, N)
    def build():
        defs = [endian, "NIN=%d" % N]
        uw = {"ref_frame.0": N // 4 + 3, "harness.0": N + 1, "harness.1": N // 4 + 3}
        cmd = cbmc_cmd([os.path.join(HC, "h_refmono.c")], "harness", uw, defs, [os.path.join(REPO, "basic"), HC], unwind=N + 2)
        return dict(cmd=cmd, native=None)
    return Obligation(oid, "the framing reference is prefix-monotone: for every file P and cut k, the lines it defines for "
                      "P[0..k) are a prefix of those for P and a cut inside P is never 'accept' -- this turns 'real == reference' "
                      "(framing queries) into 'output before failing on a truncated file is a prefix of the intact output'",
                      "P of <= %d symbolic bytes, every cut point" % N, ["harness/c/h_framing.c:ref_frame (oracle only)"],
                      build, weight_gb=2, timeout=600)

# ------------------------------------------------------------------ oracle validation (not a verdict)
def oracle_precheck():
    r = sh([sys.executable, os.path.join(ROOT, "tools", "validate_oracle.py")])
    return r["rc"] == 0, r["out"].strip().splitlines()[0] if r["out"].strip() else "no output"

# ------------------------------------------------------------------ CLI replay of framing counterexamples
_bbc = {}
def build_bbc():
    with _lock:
        if "exe" in _bbc: return _bbc["exe"]
        exe = os.path.join(scratch(), "bbcbasic_to_text")
        import glob
        r = sh(["gcc", "-O2", "-DNDEBUG"] + sorted(glob.glob(os.path.join(REPO, "basic", "*.c"))) + ["-o", exe])
        if r["rc"] != 0: raise RuntimeError(r["out"])
        _bbc["exe"] = exe
        return exe

def cli_replay_file(ob, values, outdir):
    """values = [listo, len0, bytes0[NIN], len1, bytes1[NIN], ...]: run the real program on the file(s)."""
    import re, subprocess
    sys.path.insert(0, os.path.join(ROOT, "tools"))
    import ref_basic as R
    m = re.search(r"\.N(\d+)\.F(\d+)", ob.id)
    N, F = int(m.group(1)), int(m.group(2))
    endian = ob.result["spec"]["cli"]["endian"]
    dialect = "6502" if endian == "BE" else "Z80"
    if not values: return dict(reproduced=None, detail="no input values in the trace")
    listo = values[0] & 7
    files = []
    for i in range(F):
        base = 1 + i * (N + 1)
        ln = values[base] if base < len(values) else 0
        data = bytes((values[base + 1 + k] & 0xFF) if base + 1 + k < len(values) else 0 for k in range(min(ln, N)))
        p = os.path.join(outdir, "input%d.bbc" % i)
        open(p, "wb").write(data); files.append((p, data))
    exe = build_bbc()
    pr = subprocess.run([exe, "--dialect", dialect, "--listo", str(listo)] + [p for p, _ in files],
                        stdout=subprocess.PIPE, stderr=subprocess.PIPE, timeout=30)
    exp = [R.ref_file(dialect, d, listo) for _, d in files]
    problems = []
    if any(v == R.REJECT for v, _ in exp):
        if pr.returncode == 0: problems.append("exit status 0 although a file is truncated/ill-formed")
        if pr.returncode != 0 and not pr.stderr: problems.append("non-zero exit without a diagnostic")
    if all(v == R.ACCEPT for v, _ in exp):
        if pr.returncode != 0: problems.append("exit status %d on well-formed input" % pr.returncode)
        if pr.stdout != b"".join(t for _, t in exp): problems.append("listing differs from the documented listing")
    if F == 1 and exp[0][0] == R.REJECT and not pr.stdout.startswith(exp[0][1]):
        problems.append("output before the failure is not the listing of the complete lines")
    if F == 1 and exp[0][0] == R.REJECT and len(pr.stdout) > len(exp[0][1]) and b"\n" in pr.stdout[len(exp[0][1]):]:
        problems.append("a line was listed that the intact prefix does not contain (stale or invented text)")
    if F == 2 and exp[1][0] == R.ACCEPT and not pr.stdout.endswith(exp[1][1]):
        problems.append("second file's listing depends on the first file")
    open(os.path.join(outdir, "cli.txt"), "w").write("cmd: %s --dialect %s --listo %d %s\nrc=%d\nstdout=%r\nstderr=%r\nexpected=%r\nproblems=%r\n" %
        (exe, dialect, listo, " ".join(p for p, _ in files), pr.returncode, pr.stdout, pr.stderr, exp, problems))
    if any(v == R.UNSPEC for v, _ in exp) and not problems:
        return dict(reproduced=None, detail="input is outside the oracle's claim")
    return dict(reproduced=bool(problems), detail="; ".join(problems) or "real program agrees with the oracle on this input")
