"""Pipeline P-IR for the C++ units: wrapper TU (#includes the real dfs/*.cc) ->
clang++-14 -O1 LLVM IR -> tools/ir2c.py -> C -> CBMC; native g++ build of the
same wrapper for counterexample replay and for validating the translator."""
import os, re, random, hashlib
from vlib import *

HX = os.path.join(ROOT, "harness", "cxx")
STUBS = os.path.join(ROOT, "stubs")
STUB_SRC = [os.path.join(STUBS, "vf_stubs.c")]
CLANG_FLAGS = ["-std=c++17", "-O1", "-fno-vectorize", "-fno-slp-vectorize", "-fno-unroll-loops", "-DUSE_ZLIB",
               "-I", os.path.join(REPO, "dfs"), "-I", HX, "-S", "-emit-llvm", "-w"]
_lock = threading.Lock()
_ir_cache = {}

def compile_ir(wrapper, defines, extra=()):
    key = (wrapper, tuple(defines), tuple(extra))
    with _lock:
        if key in _ir_cache: return _ir_cache[key]
    d = subdir("ir-" + hashlib.sha1(repr(key).encode()).hexdigest()[:10])
    ll = os.path.join(d, "w.ll")
    cmd = ["clang++-14"] + CLANG_FLAGS + list(extra) + ["-D" + x for x in defines] + [os.path.join(HX, wrapper), "-o", ll]
    r = sh(cmd, timeout=600)
    if r["rc"] != 0: raise RuntimeError("clang++ failed on %s:\n%s" % (wrapper, r["out"][-3000:]))
    with _lock: _ir_cache[key] = ll
    return ll

_lib = {}
def dfs_lib():
    """Static library of the rest of the real dfs/*.cc (built once per run) so that the native wrapper builds link."""
    with _lock:
        if "a" in _lib: return _lib["a"]
        d = subdir("libdfs")
        import glob
        srcs = [f for f in sorted(glob.glob(os.path.join(REPO, "dfs", "*.cc"))) if os.path.basename(f) != "main.cc"]
        def one(src):
            o = os.path.join(d, os.path.basename(src)[:-3] + ".o")
            return lambda: sh(["g++", "-std=c++17", "-O1", "-g", "-w", "-DUSE_ZLIB", "-DNDEBUG", "-I", os.path.join(REPO, "dfs"), "-c", src, "-o", o], timeout=600)
        res = Sched().run_all([(0.5, one(s_)) for s_ in srcs])
        bad = [r for r in res if isinstance(r, Exception) or r["rc"] != 0]
        if bad: raise RuntimeError("native build of dfs sources failed: %s" % (bad[0] if isinstance(bad[0], Exception) else bad[0]["out"][-1500:]))
        a = os.path.join(d, "libdfsall.a")
        r = sh(["ar", "rcs", a] + [os.path.join(d, os.path.basename(s_)[:-3] + ".o") for s_ in srcs])
        if r["rc"] != 0: raise RuntimeError(r["out"])
        _lib["a"] = a
        return a

def resolve_unwind(cfile, rules, default, cdefines=()):
    """rules: list of (substring of loop id, bound); first match wins."""
    r = sh(["cbmc", "-I", STUBS] + [x for d in cdefines for x in ("-D", d)] + [cfile, "--show-loops"], timeout=300)
    uw = {}
    for m in re.finditer(r"^Loop ([^\s:]+):", r["out"], re.M):
        lid = m.group(1)
        for sub, n in list(rules) + [("vf_eh_matches", 9)]:
            if (lid.endswith(sub) if sub[-1].isdigit() else sub in lid):
                uw[lid] = n; break
    return uw

def cxx_ob(pid, oid, wrapper, entry, what, bounds, functions, unwind=2, unwindset=None, defines=("NDEBUG",), havoc=(),
           weight_gb=3, timeout=900, stubs=(), extra=(), known=None, object_bits=12, noop_re=(), replace=(), clang_extra=(), cdefines=()):
    """One CBMC query on one extern "C" harness function of a wrapper TU."""
    full = "%s.%s" % (pid, oid)
    def build():
        ll = compile_ir(wrapper, list(defines), list(clang_extra))
        d = subdir("c-" + full)
        cfile = os.path.join(d, "h.c")
        cmd = [sys.executable, os.path.join(ROOT, "tools", "ir2c.py"), ll, "-o", cfile, "--entry", entry]
        for s in STUB_SRC: cmd += ["--stub-src", s]
        if havoc: cmd += ["--havoc", ",".join(havoc)]
        for rx in list(noop_re) + [x for x in os.environ.get("VF_DEBUG_EXTRA_NOOP", "").split(",") if x]: cmd += ["--noop-re", rx]   # env: debugging aid only
        for rp in replace: cmd += ["--replace", rp]
        r = sh(cmd, timeout=600)
        if r["rc"] != 0: raise RuntimeError("NOT-ENCODED by ir2c: " + r["out"][-2000:])
        ex = ["--max-field-sensitivity-array-size", "300"] + list(extra)   # 25x smaller formulas on 256-byte sector buffers (measured)
        if object_bits: ex += ["--object-bits", str(object_bits)]
        uw = resolve_unwind(cfile, unwindset or [], unwind, cdefines)
        # LLVM hoists address computations above the branches that guard their use (legal: an out-of-range
        # `getelementptr inbounds` is poison, not UB, until dereferenced), so CBMC's check on pointer ARITHMETIC
        # raises alarms no sanitizer confirms; dereferences stay checked (--pointer-check, --bounds-check).
        c = cbmc_cmd([cfile], "vf_main_" + entry, uw, list(cdefines), [STUBS], unwind=unwind, extra=ex, no_checks=("--pointer-overflow-check",))
        rt = os.path.join(ROOT, "harness", "c", "native_rt.c")
        native = dict(cc="g++", flags=["-std=c++17", "-DUSE_ZLIB", "-x", "c++"],
                      files=[os.path.join(HX, wrapper), os.path.join(HX, "vf_native.cc"), rt],
                      defines=list(defines) + ["harness=" + entry, "VF_CXX_MAIN=1"],
                      includes=[os.path.join(REPO, "dfs"), HX], libs=[dfs_lib(), "-lz", "-Wl,--allow-multiple-definition"])
        gen_native = dict(cc="gcc", flags=[], files=[cfile, rt], defines=["harness=vf_main_" + entry], includes=[STUBS])
        return dict(cmd=c, native=native, gen_native=gen_native, entry=entry)
    return Obligation(full, what, bounds, functions, build, weight_gb=weight_gb, timeout=timeout,
                      stubs=["IR->C translation by tools/ir2c.py (validated differentially each run)"] + list(stubs)
                            + ["function body cut, replaced by no-op stub: /%s/" % rx for rx in noop_re]
                            + ["calls redirected to a harness contract stub: %s" % rp for rp in replace], known=known)

# ------------------------------------------------------------------ translator validation (Serval-style), per obligation
def validate_translation(ob, seed, nvec=6):
    """Runs the gcc-built generated C and the g++-built real C++ on the same input
    vectors; every vf_observe value, the exit status and the failing assertion (if
    any) must agree.  Returns (ok, text)."""
    spec = ob.result["spec"]
    if "gen_native" not in spec: return True, "n/a"
    d = subdir("val-" + ob.id)
    exes = []
    for tag, nat in (("real", spec["native"]), ("gen", spec["gen_native"])):
        exe = os.path.join(d, tag)
        cc = [nat["cc"], "-g", "-O1", "-DVF_NATIVE", "-w"] + list(nat.get("flags", []))
        for i in nat.get("includes", []): cc += ["-I", i]
        for x in nat.get("defines", []): cc += ["-D", x]
        cc += list(nat["files"]) + ["-o", exe] + list(nat.get("libs", []))
        r = sh(cc, timeout=900)
        if r["rc"] != 0: return False, "%s build failed: %s" % (tag, r["out"][-1500:])
        exes.append(exe)
    rnd = random.Random(seed * 7919 + hash(ob.id) % 1000)
    vectors = [[0] * 64, [255] * 64, [1] * 64]
    for k in range(nvec):
        vectors.append([rnd.choice([0, 1, 2, 3, 7, 8, 0x7F, 0x80, 0xFF, rnd.randrange(256), rnd.randrange(1 << 16), rnd.randrange(1 << 32)]) for _ in range(64)])
    for w in ob.result.get("witness_inputs", []): vectors.append(w)
    agree = 0; informative = 0
    for vi, vec in enumerate(vectors):
        vf = os.path.join(d, "v%d.txt" % vi)
        open(vf, "w").write("\n".join(str(v) for v in vec) + "\n")
        outs = []
        for exe in exes:
            r = sh([exe], timeout=60, env={"VF_REPLAY": vf})
            outs.append((r["rc"], [l for l in r["out"].splitlines() if l.startswith("OBS ") or l.startswith("ASSERTION FAILED")]))
        if outs[0] != outs[1]:
            return False, "generated C and real C++ disagree on vector %d: real=%r gen=%r" % (vi, outs[0], outs[1])
        agree += 1
        if outs[0][0] != 77: informative += 1
    return True, "%d vectors agree (%d satisfy the harness assumptions)" % (agree, informative)
