#!/usr/bin/env python3
"""Debug aid: builds one obligation and prints its CBMC command (scratch directory is kept).
usage: tools/dbg_ob.py Cnn OBLIGATION-ID [tier]"""
import sys, os, atexit
sys.path.insert(0, os.path.dirname(os.path.abspath(__file__)))
import vlib, registry
obs, _ = registry.obligations(sys.argv[1], sys.argv[3] if len(sys.argv) > 3 else "quick")
ob = next(o for o in obs if o.id.endswith(sys.argv[2]))
spec = ob.build()
try: atexit.unregister(vlib.cleanup)
except Exception: pass
print(" ".join(spec["cmd"]))
os._exit(0)
