#!/usr/bin/env python3
"""LLVM-14 textual IR (typed pointers)  ->  one C translation unit for CBMC / gcc.

Scope: what clang++-14 -O1 emits for the dfs/ wrapper TUs: integer/pointer/
array/struct types with identical layout, alloca/load/store/GEP/casts,
wrapping arithmetic, icmp/select/phi/br/switch, direct and indirect calls,
extractvalue/insertvalue, mem intrinsics, overflow intrinsics, C++ EH
(invoke/landingpad/resume + __cxa_* runtime in stubs/), global initialisers
(strings, vtables, typeinfo).  Anything else raises NotEncoded: the caller
reports the harness as NOT-ENCODED, never as passed.

usage: ir2c.py in.ll -o out.c --entry f1,f2 [--stub-src stubs/cxx_rt.c] [--havoc name,...]
"""
import re, sys, struct, argparse, os

class NotEncoded(Exception):
    pass

# ----------------------------------------------------------------------------- lexer
TOK_RE = re.compile(r'''
   (?P<ws>\s+)
 | (?P<comment>;[^\n]*)
 | (?P<cstr>c"(?:[^"\\]|\\[0-9A-Fa-f]{2}|\\\\)*")
 | (?P<str>"(?:[^"\\]|\\.)*")
 | (?P<gid>@(?:"(?:[^"\\]|\\.)*"|[-a-zA-Z$._0-9]+))
 | (?P<lid>%(?:"(?:[^"\\]|\\.)*"|[-a-zA-Z$._0-9]+))
 | (?P<meta>![-a-zA-Z$._0-9]*|!\{)
 | (?P<attr>\#\d+)
 | (?P<comdat>\$(?:"(?:[^"\\]|\\.)*"|[-a-zA-Z$._0-9]+))
 | (?P<hexfp>0x[KLMHR]?[0-9A-Fa-f]+)
 | (?P<num>-?\d+\.\d*(?:e[+-]?\d+)?|-?\d+)
 | (?P<word>[a-zA-Z_][a-zA-Z_0-9.]*)
 | (?P<dots>\.\.\.)
 | (?P<punct><\{|\}>|[()\[\]{}<>,=*:|])
''', re.X)

def lex(s):
    out = []
    pos = 0
    n = len(s)
    while pos < n:
        m = TOK_RE.match(s, pos)
        if not m:
            raise NotEncoded("lex error at: " + s[pos:pos + 40])
        pos = m.end()
        k = m.lastgroup
        if k in ("ws", "comment"):
            continue
        out.append((k, m.group(k)))
    return out

def unquote(name):
    if name.startswith('"'):
        body = name[1:-1]
        return re.sub(r'\\([0-9A-Fa-f]{2})', lambda m: chr(int(m.group(1), 16)), body)
    return name

def cident(name):
    return re.sub(r'[^A-Za-z0-9_]', lambda m: '_%02x' % ord(m.group(0)), name)

# ----------------------------------------------------------------------------- types
class Ty:
    pass
class IntT(Ty):
    def __init__(s, bits): s.bits = bits
    def __repr__(s): return "i%d" % s.bits
class FloatT(Ty):
    def __init__(s, kind): s.kind = kind
class VoidT(Ty): pass
class PtrT(Ty):
    def __init__(s, to): s.to = to
class ArrT(Ty):
    def __init__(s, n, el): s.n, s.el = n, el
class StructT(Ty):            # literal struct
    def __init__(s, fields, packed=False): s.fields, s.packed = fields, packed
class NamedT(Ty):
    def __init__(s, name): s.name = name
class FuncT(Ty):
    def __init__(s, ret, params, vararg): s.ret, s.params, s.vararg = ret, params, vararg
class OpaqueT(Ty): pass
class LabelT(Ty): pass
class MetaT(Ty): pass

def ty_key(t):
    if isinstance(t, IntT): return "i%d" % t.bits
    if isinstance(t, FloatT): return t.kind
    if isinstance(t, VoidT): return "void"
    if isinstance(t, PtrT): return "p_" + ty_key(t.to)
    if isinstance(t, ArrT): return "a%d_%s" % (t.n, ty_key(t.el))
    if isinstance(t, StructT): return ("P" if t.packed else "") + "s_" + "_".join(ty_key(f) for f in t.fields) + "_e"
    if isinstance(t, NamedT): return "n_" + cident(t.name)
    if isinstance(t, FuncT): return "f_" + ty_key(t.ret) + "_" + "_".join(ty_key(p) for p in t.params) + ("_va" if t.vararg else "") + "_e"
    if isinstance(t, (LabelT, MetaT, OpaqueT)): return "x"
    raise NotEncoded("type key " + repr(t))

class Parser:
    def __init__(self, toks):
        self.t = toks
        self.i = 0
    def peek(self, k=0):
        return self.t[self.i + k] if self.i + k < len(self.t) else ("eof", "")
    def next(self):
        tok = self.peek(); self.i += 1; return tok
    def accept(self, val):
        if self.peek()[1] == val:
            self.i += 1; return True
        return False
    def expect(self, val):
        tok = self.next()
        if tok[1] != val:
            raise NotEncoded("expected %r got %r near %r" % (val, tok[1], " ".join(x[1] for x in self.t[max(0, self.i - 8):self.i + 8])))
    def at_end(self): return self.i >= len(self.t)

    # ---- types
    def parse_type(self):
        k, v = self.next()
        if k == "word":
            m = re.fullmatch(r'i(\d+)', v)
            if m: t = IntT(int(m.group(1)))
            elif v in ("float", "double", "x86_fp80", "half", "fp128"): t = FloatT(v)
            elif v == "void": t = VoidT()
            elif v == "label": t = LabelT()
            elif v == "metadata": t = MetaT()
            elif v == "opaque": t = OpaqueT()
            elif v == "ptr": raise NotEncoded("opaque pointers not supported (need LLVM 14 typed pointers)")
            else: raise NotEncoded("unknown type word " + v)
        elif k == "lid":
            t = NamedT(unquote(v[1:]))
        elif v == "[":
            n = int(self.next()[1]); self.expect("x"); el = self.parse_type(); self.expect("]")
            t = ArrT(n, el)
        elif v == "{":
            fields = []
            if not self.accept("}"):
                while True:
                    fields.append(self.parse_type())
                    if self.accept("}"): break
                    self.expect(",")
            t = StructT(fields)
        elif v == "<{":
            fields = []
            if not self.accept("}>"):
                while True:
                    fields.append(self.parse_type())
                    if self.accept("}>"): break
                    self.expect(",")
            t = StructT(fields, packed=True)
        elif v == "<":
            raise NotEncoded("vector types are not supported")
        else:
            raise NotEncoded("type expected, got %r" % v)
        # suffixes: * and function types
        while True:
            if self.accept("*"):
                t = PtrT(t)
            elif self.peek()[1] == "addrspace":
                raise NotEncoded("addrspace")
            elif self.peek()[1] == "(" :
                # function type
                self.next()
                params = []; vararg = False
                if not self.accept(")"):
                    while True:
                        if self.peek()[0] == "dots":
                            self.next(); vararg = True
                        else:
                            params.append(self.parse_type())
                            self.skip_param_attrs()
                        if self.accept(")"): break
                        self.expect(",")
                t = FuncT(t, params, vararg)
            else:
                break
        return t

    PARAM_ATTRS = {"noundef", "nonnull", "zeroext", "signext", "inreg", "noalias", "nocapture", "readonly", "readnone",
                   "writeonly", "returned", "nest", "immarg", "nofree", "swiftself", "swifterror", "noreturn", "inalloca"}
    def skip_param_attrs(self):
        """skips parameter attributes; returns dict of interesting ones"""
        info = {}
        while True:
            k, v = self.peek()
            if k == "word" and v in self.PARAM_ATTRS:
                self.next(); info[v] = True
            elif k == "word" and v in ("align", ):
                self.next(); self.next()
            elif k == "word" and v in ("dereferenceable", "dereferenceable_or_null"):
                self.next(); self.expect("("); self.next(); self.expect(")")
            elif k == "word" and v in ("byval", "sret", "byref", "preallocated", "elementtype"):
                self.next()
                if self.accept("("):
                    ty = self.parse_type(); self.expect(")")
                    info[v] = ty
                else:
                    info[v] = True
            else:
                return info

# ----------------------------------------------------------------------------- values
class Val:
    pass
class Const(Val):
    def __init__(s, kind, ty, data=None): s.kind, s.ty, s.data = kind, ty, data
class Local(Val):
    def __init__(s, name, ty): s.name, s.ty = name, ty
class GlobalRef(Val):
    def __init__(s, name, ty): s.name, s.ty = name, ty

CAST_OPS = {"bitcast", "inttoptr", "ptrtoint", "trunc", "zext", "sext", "addrspacecast", "fptoui", "fptosi", "uitofp", "sitofp", "fptrunc", "fpext"}
BIN_OPS = {"add", "sub", "mul", "udiv", "sdiv", "urem", "srem", "shl", "lshr", "ashr", "and", "or", "xor",
           "fadd", "fsub", "fmul", "fdiv", "frem"}

class Module:
    def __init__(self):
        self.named_types = {}     # name -> Ty (StructT or OpaqueT)
        self.type_order = []
        self.globals = {}         # name -> dict(ty, init, const, external)
        self.global_order = []
        self.funcs = {}           # name -> Function
        self.func_order = []
        self.aliases = {}
        self.attr_groups = {}     # "#N" -> set of words
        self.ctors = []

class Function:
    def __init__(self):
        self.name = None; self.ret = None; self.params = []; self.vararg = False
        self.blocks = []          # list of (label, [instr])
        self.attrs = set()
        self.defined = False
        self.param_info = []

class Instr:
    def __init__(self, op, res=None, **kw):
        self.op = op; self.res = res; self.__dict__.update(kw)

# ----------------------------------------------------------------------------- module parser
def split_toplevel(text):
    """yields (kind, text) for top-level entities"""
    lines = text.split("\n")
    i = 0
    n = len(lines)
    while i < n:
        ln = lines[i]
        if ln.startswith("define "):
            j = i
            buf = [ln]
            while not lines[j].startswith("}"):
                j += 1
                buf.append(lines[j])
            yield ("define", "\n".join(buf))
            i = j + 1
            continue
        if ln.strip() and not ln.startswith(";"):
            yield ("line", ln)
        i += 1

class ModuleParser:
    def __init__(self, text):
        self.m = Module()
        self.text = text

    def parse(self):
        m = self.m
        ents = list(split_toplevel(self.text))
        # pass 1: types, attribute groups, aliases
        for kind, s in ents:
            if kind != "line": continue
            if s.startswith("%") and " = type " in s:
                toks = lex(s)
                p = Parser(toks)
                name = unquote(p.next()[1][1:])
                p.expect("="); p.expect("type")
                if p.peek()[1] == "opaque":
                    m.named_types[name] = OpaqueT()
                else:
                    m.named_types[name] = p.parse_type()
                m.type_order.append(name)
            elif s.startswith("attributes #"):
                mm = re.match(r'attributes (#\d+) = \{(.*)\}', s)
                words = set(re.findall(r'(?<!")\b([a-z_]+)\b(?!")', re.sub(r'"[^"]*"(="[^"]*")?', '', mm.group(2))))
                m.attr_groups[mm.group(1)] = words
        # pass 2: globals, declares, defines (signatures first)
        self.pending_bodies = []
        for kind, s in ents:
            if kind == "line":
                if s.startswith("@"):
                    self.parse_global(s)
                elif s.startswith("declare "):
                    self.parse_func_header(lex(s), declared=True)
            else:
                head, _, rest = s.partition("{\n")
                # the header line ends with '{'
                first_nl = s.index("\n")
                header = s[:first_nl]
                body = s[first_nl + 1:]
                f = self.parse_func_header(lex(header.rstrip().rstrip("{")), declared=False)
                self.pending_bodies.append((f, body))
        for f, body in self.pending_bodies:
            self.parse_body(f, body)
        return m

    # -- globals
    def parse_global(self, s):
        m = self.m
        toks = lex(s)
        p = Parser(toks)
        name = unquote(p.next()[1][1:])
        p.expect("=")
        external = False; const = False
        words = []
        while True:
            k, v = p.peek()
            if k == "word" and v in ("private", "internal", "linkonce_odr", "weak_odr", "linkonce", "weak", "external", "common",
                                     "available_externally", "appending", "dso_local", "dso_preemptable", "hidden", "protected",
                                     "default", "unnamed_addr", "local_unnamed_addr", "thread_local", "externally_initialized"):
                p.next(); words.append(v)
                if v == "thread_local" and p.accept("("):
                    p.next(); p.expect(")")
            else:
                break
        if "external" in words: external = True
        k, v = p.next()
        if v == "alias":
            ty = p.parse_type(); p.expect(",")
            if p.peek()[0] == "word" and p.peek()[1] in CAST_OPS:
                val = self.parse_value(p, None, None)
            else:
                val = self.parse_typed_value(p, None)
            m.aliases[name] = val
            return
        if v == "constant": const = True
        elif v == "global": const = False
        elif v == "ifunc": raise NotEncoded("ifunc")
        else: raise NotEncoded("global kind " + v + " in " + s[:80])
        ty = p.parse_type()
        init = None
        if not external and p.peek()[1] not in (",", "") and p.peek()[0] != "eof":
            init = self.parse_value(p, ty, None)
        if name in ("llvm.global_ctors",):
            # [N x { i32, void ()*, i8* }] [{ i32 65535, void ()* @f, i8* null }, ...]
            if init and init.kind == "array":
                for el in init.data:
                    fn = el.data[1]
                    if isinstance(fn, GlobalRef): m.ctors.append(fn.name)
            return
        if name.startswith("llvm."): return
        m.globals[name] = dict(ty=ty, init=init, const=const, external=(init is None))
        m.global_order.append(name)

    # -- values
    def parse_typed_value(self, p, fn):
        ty = p.parse_type()
        return self.parse_value(p, ty, fn)

    def parse_value(self, p, ty, fn):
        k, v = p.next()
        if k == "lid":
            return Local(unquote(v[1:]), ty)
        if k == "gid":
            return GlobalRef(unquote(v[1:]), ty)
        if k == "num":
            if isinstance(ty, FloatT): return Const("float", ty, float(v))
            return Const("int", ty, int(v))
        if k == "hexfp":
            return Const("hexfp", ty, v)
        if k == "cstr":
            body = v[2:-1]
            bs = bytearray()
            i = 0
            while i < len(body):
                if body[i] == "\\":
                    if body[i + 1] == "\\": bs.append(0x5c); i += 2
                    else: bs.append(int(body[i + 1:i + 3], 16)); i += 3
                else: bs.append(ord(body[i])); i += 1
            return Const("cstr", ty, bytes(bs))
        if k == "word":
            if v == "true": return Const("int", ty, 1)
            if v == "false": return Const("int", ty, 0)
            if v == "null": return Const("null", ty)
            if v in ("undef", "poison"): return Const("undef", ty)
            if v == "zeroinitializer": return Const("zero", ty)
            if v == "none": return Const("null", ty)
            if v == "getelementptr":
                inb = p.accept("inbounds")
                p.expect("(")
                base_ty = p.parse_type(); p.expect(",")
                ptr = self.parse_typed_value(p, fn)
                idx = []
                while p.accept(","):
                    p.accept("inrange")
                    idx.append(self.parse_typed_value(p, fn))
                p.expect(")")
                return Const("gep", ty, (base_ty, ptr, idx))
            if v in CAST_OPS:
                p.expect("(")
                src = self.parse_typed_value(p, fn)
                p.expect("to"); dst = p.parse_type(); p.expect(")")
                return Const("cast", dst, (v, src))
            if v in BIN_OPS:
                while p.peek()[1] in ("nuw", "nsw", "exact"): p.next()
                p.expect("(")
                a = self.parse_typed_value(p, fn); p.expect(",")
                b = self.parse_typed_value(p, fn); p.expect(")")
                return Const("binop", ty, (v, a, b))
            if v == "icmp":
                pred = p.next()[1]; p.expect("(")
                a = self.parse_typed_value(p, fn); p.expect(",")
                b = self.parse_typed_value(p, fn); p.expect(")")
                return Const("icmp", ty, (pred, a, b))
            if v == "select":
                p.expect("(")
                c = self.parse_typed_value(p, fn); p.expect(",")
                a = self.parse_typed_value(p, fn); p.expect(",")
                b = self.parse_typed_value(p, fn); p.expect(")")
                return Const("select", ty, (c, a, b))
            if v == "blockaddress": raise NotEncoded("blockaddress")
            if v == "dso_local_equivalent": raise NotEncoded("dso_local_equivalent")
            raise NotEncoded("value word " + v)
        if v == "{" or v == "<{":
            close = "}" if v == "{" else "}>"
            els = []
            if not p.accept(close):
                while True:
                    els.append(self.parse_typed_value(p, fn))
                    if p.accept(close): break
                    p.expect(",")
            return Const("struct", ty, els)
        if v == "[":
            els = []
            if not p.accept("]"):
                while True:
                    els.append(self.parse_typed_value(p, fn))
                    if p.accept("]"): break
                    p.expect(",")
            return Const("array", ty, els)
        if v == "<":
            raise NotEncoded("vector constant")
        raise NotEncoded("value token %r" % v)

    # -- functions
    FN_WORDS = {"private", "internal", "linkonce_odr", "weak_odr", "linkonce", "weak", "external", "available_externally",
                "dso_local", "hidden", "protected", "default", "unnamed_addr", "local_unnamed_addr", "noundef", "nonnull",
                "zeroext", "signext", "noalias", "fastcc", "ccc", "coldcc", "inreg"}
    def parse_func_header(self, toks, declared):
        p = Parser(toks)
        p.next()  # define/declare
        while True:
            k, v = p.peek()
            if k == "word" and v in self.FN_WORDS: p.next()
            elif k == "word" and v == "align": p.next(); p.next()
            elif k == "word" and v in ("dereferenceable", "dereferenceable_or_null"):
                p.next(); p.expect("("); p.next(); p.expect(")")
            else: break
        # return type: parse_type would swallow '(' as function type; so parse manually until gid
        ret = self.parse_ret_type(p)
        name = unquote(p.next()[1][1:])
        p.expect("(")
        params = []; pinfo = []; vararg = False
        if not p.accept(")"):
            while True:
                if p.peek()[0] == "dots":
                    p.next(); vararg = True
                else:
                    ty = p.parse_type()
                    info = p.skip_param_attrs()
                    pname = None
                    if p.peek()[0] == "lid":
                        pname = unquote(p.next()[1][1:])
                    params.append((ty, pname)); pinfo.append(info)
                if p.accept(")"): break
                p.expect(",")
        attrs = set()
        while not p.at_end():
            k, v = p.next()
            if k == "attr": attrs |= self.m.attr_groups.get(v, set())
            elif k == "word": attrs.add(v)
        f = self.m.funcs.get(name) or Function()
        f.name = name; f.ret = ret; f.params = params; f.vararg = vararg; f.attrs = attrs; f.param_info = pinfo
        if not declared: f.defined = True
        if name not in self.m.funcs:
            self.m.funcs[name] = f; self.m.func_order.append(name)
        return f

    def parse_ret_type(self, p):
        # a return type never is a function type directly (it would be a pointer to one) -> parse base then '*' only
        save = p.i
        t = self._parse_type_noparen(p)
        return t
    def _parse_type_noparen(self, p):
        # like parse_type but a '(' directly after the base type is NOT consumed unless followed later by '*'
        start = p.i
        k, v = p.peek()
        # parse one base type with parse_type on a sub-parser that stops at gid
        # find the token index of the function name (first gid at depth 0)
        depth = 0; j = p.i
        while True:
            kk, vv = p.t[j]
            if vv in ("(", "[", "{", "<{", "<"): depth += 1
            elif vv in (")", "]", "}", "}>", ">"): depth -= 1
            elif kk == "gid" and depth == 0: break
            j += 1
        sub = Parser(p.t[p.i:j])
        t = sub.parse_type()
        if not sub.at_end(): raise NotEncoded("return type parse")
        p.i = j
        return t

    # -- bodies
    def parse_body(self, f, body):
        blocks = []
        cur = None
        implicit = 0
        # first block label is implicit: number = len(params) unless named
        lines = body.split("\n")
        for ln in lines:
            s = ln.strip()
            if not s or s == "}" or s.startswith(";"): continue
            m = re.match(r'^([-a-zA-Z$._0-9]+|"[^"]*"):', ln)
            if m and not ln.startswith(" "):
                cur = (unquote(m.group(1)), [])
                blocks.append(cur)
                continue
            if cur is None:
                # implicit entry label
                nparams_unnamed = sum(1 for (_, pn) in f.params if pn is None or pn.isdigit())
                cur = ("%entry", [])
                blocks.append(cur)
            cur[1].append(s)
        # parse instructions (switch spans multiple lines: join)
        pblocks = []
        for label, lns in blocks:
            joined = []
            acc = None
            for s in lns:
                if acc is not None:
                    acc += " " + s
                    if s.startswith("]"):
                        joined.append(acc); acc = None
                    continue
                if re.match(r'^switch ', s) and not s.rstrip().endswith("]"):
                    acc = s; continue
                if (" landingpad " in s or s.startswith("landingpad")):
                    joined.append(s); continue
                if re.match(r'^(cleanup|catch |filter |to label )', s) and joined:
                    joined[-1] += " " + s; continue
                joined.append(s)
            ins = [self.parse_instr(s, f) for s in joined]
            pblocks.append((label, ins))
        f.blocks = pblocks

    def parse_instr(self, s, f):
        toks = lex(s)
        # strip trailing metadata ", !tbaa !5" etc.
        cut = len(toks)
        for i, (k, v) in enumerate(toks):
            if k == "meta" and i > 0 and toks[i - 1][1] == ",":
                cut = i - 1; break
        toks = toks[:cut]
        p = Parser(toks)
        res = None
        if p.peek()[0] == "lid" and p.peek(1)[1] == "=":
            res = unquote(p.next()[1][1:]); p.next()
        k, op = p.next()
        I = Instr
        if op == "ret":
            if p.peek()[1] == "void": return I("ret", val=None)
            return I("ret", val=self.parse_typed_value(p, f))
        if op == "br":
            if p.peek()[1] == "label":
                p.next(); return I("br", dest=unquote(p.next()[1][1:]))
            c = self.parse_typed_value(p, f); p.expect(","); p.expect("label")
            a = unquote(p.next()[1][1:]); p.expect(","); p.expect("label"); b = unquote(p.next()[1][1:])
            return I("condbr", cond=c, t=a, f=b)
        if op == "switch":
            v = self.parse_typed_value(p, f); p.expect(","); p.expect("label"); d = unquote(p.next()[1][1:])
            p.expect("[")
            cases = []
            while not p.accept("]"):
                cv = self.parse_typed_value(p, f); p.expect(","); p.expect("label")
                cases.append((cv, unquote(p.next()[1][1:])))
            return I("switch", val=v, default=d, cases=cases)
        if op == "unreachable": return I("unreachable")
        if op == "resume": return I("resume", val=self.parse_typed_value(p, f))
        if op == "alloca":
            p.accept("inalloca")
            ty = p.parse_type(); cnt = None
            if p.accept(","):
                if p.peek()[1] == "align": p.next(); p.next()
                else:
                    cnt = self.parse_typed_value(p, f)
            return I("alloca", res, ty=ty, count=cnt)
        if op == "load":
            p.accept("atomic"); p.accept("volatile")
            ty = p.parse_type(); p.expect(","); ptr = self.parse_typed_value(p, f)
            return I("load", res, ty=ty, ptr=ptr)
        if op == "store":
            p.accept("atomic"); p.accept("volatile")
            v = self.parse_typed_value(p, f); p.expect(","); ptr = self.parse_typed_value(p, f)
            return I("store", val=v, ptr=ptr)
        if op == "getelementptr":
            p.accept("inbounds")
            bt = p.parse_type(); p.expect(",")
            ptr = self.parse_typed_value(p, f)
            idx = []
            while p.accept(","): idx.append(self.parse_typed_value(p, f))
            return I("gep", res, base_ty=bt, ptr=ptr, idx=idx)
        if op in CAST_OPS:
            src = self.parse_typed_value(p, f); p.expect("to"); dst = p.parse_type()
            return I("cast", res, cop=op, src=src, dst=dst)
        if op in BIN_OPS:
            flags = set()
            while p.peek()[1] in ("nuw", "nsw", "exact", "fast", "nnan", "ninf", "nsz", "arcp", "contract", "afn", "reassoc"): flags.add(p.next()[1])
            ty = p.parse_type(); a = self.parse_value(p, ty, f); p.expect(","); b = self.parse_value(p, ty, f)
            return I("binop", res, bop=op, ty=ty, a=a, b=b, flags=flags)
        if op == "fneg":
            while p.peek()[1] in ("fast", "nnan", "ninf", "nsz"): p.next()
            ty = p.parse_type(); a = self.parse_value(p, ty, f)
            return I("fneg", res, ty=ty, a=a)
        if op in ("icmp", "fcmp"):
            while p.peek()[1] in ("fast", "nnan", "ninf", "nsz"): p.next()
            pred = p.next()[1]; ty = p.parse_type(); a = self.parse_value(p, ty, f); p.expect(","); b = self.parse_value(p, ty, f)
            return I(op, res, pred=pred, ty=ty, a=a, b=b)
        if op == "select":
            while p.peek()[1] in ("fast", "nnan", "ninf", "nsz"): p.next()
            c = self.parse_typed_value(p, f); p.expect(","); a = self.parse_typed_value(p, f); p.expect(","); b = self.parse_typed_value(p, f)
            return I("select", res, cond=c, a=a, b=b)
        if op == "phi":
            ty = p.parse_type(); inc = []
            while True:
                p.expect("["); v = self.parse_value(p, ty, f); p.expect(","); lab = unquote(p.next()[1][1:]); p.expect("]")
                inc.append((v, lab))
                if not p.accept(","): break
            return I("phi", res, ty=ty, inc=inc)
        if op == "freeze":
            v = self.parse_typed_value(p, f); return I("freeze", res, val=v)
        if op == "extractvalue":
            agg = self.parse_typed_value(p, f); idx = []
            while p.accept(","): idx.append(int(p.next()[1]))
            return I("extractvalue", res, agg=agg, idx=idx)
        if op == "insertvalue":
            agg = self.parse_typed_value(p, f); p.expect(","); v = self.parse_typed_value(p, f); idx = []
            while p.accept(","): idx.append(int(p.next()[1]))
            return I("insertvalue", res, agg=agg, val=v, idx=idx)
        if op in ("call", "invoke") or (op in ("tail", "musttail", "notail") and p.peek()[1] == "call"):
            if op in ("tail", "musttail", "notail"): p.next(); op = "call"
            while p.peek()[1] in ("fast", "nnan", "ninf", "nsz", "fastcc", "ccc", "coldcc", "noundef", "nonnull", "zeroext", "signext", "noalias", "inreg", "contract", "reassoc", "afn", "arcp"): p.next()
            while p.peek()[1] in ("align", ):
                p.next(); p.next()
            while p.peek()[1] in ("dereferenceable", "dereferenceable_or_null"):
                p.next(); p.expect("("); p.next(); p.expect(")")
            # return type (may be full function type for varargs)
            rty = self._call_ret_type(p)
            callee_tok = p.next()
            if callee_tok[0] == "gid": callee = GlobalRef(unquote(callee_tok[1][1:]), None)
            elif callee_tok[0] == "lid": callee = Local(unquote(callee_tok[1][1:]), None)
            elif callee_tok[1] in CAST_OPS:
                p.i -= 1
                callee = self.parse_value(p, None, f)
            elif callee_tok[1] == "asm": raise NotEncoded("inline asm")
            else: raise NotEncoded("callee " + callee_tok[1])
            p.expect("(")
            args = []
            if not p.accept(")"):
                while True:
                    aty = p.parse_type()
                    info = p.skip_param_attrs()
                    if isinstance(aty, MetaT):
                        # metadata argument (llvm.dbg etc.)
                        while p.peek()[1] not in (",", ")"): p.next()
                        args.append(None)
                    else:
                        args.append(self.parse_value(p, aty, f))
                    if p.accept(")"): break
                    p.expect(",")
            attrs = set()
            normal = unwind = None
            while not p.at_end():
                k2, v2 = p.next()
                if k2 == "attr": attrs |= self.m.attr_groups.get(v2, set())
                elif v2 == "to": p.expect("label"); normal = unquote(p.next()[1][1:])
                elif v2 == "unwind": p.expect("label"); unwind = unquote(p.next()[1][1:])
                elif k2 == "word": attrs.add(v2)
                elif v2 == "[":   # operand bundle
                    while p.next()[1] != "]": pass
            return I(op, res, rty=rty, callee=callee, args=args, attrs=attrs, normal=normal, unwind=unwind)
        if op == "landingpad":
            ty = p.parse_type()
            cleanup = False; clauses = []
            while not p.at_end():
                w = p.next()[1]
                if w == "cleanup": cleanup = True
                elif w == "catch": clauses.append(("catch", self.parse_typed_value(p, f)))
                elif w == "filter": clauses.append(("filter", self.parse_typed_value(p, f)))
            return I("landingpad", res, ty=ty, cleanup=cleanup, clauses=clauses)
        if op in ("fence",): return I("nop")
        raise NotEncoded("instruction %s in %s" % (op, f.name))

    def _call_ret_type(self, p):
        # type up to the callee token (gid / lid / cast-expr); function-pointer types "ret (params)*" appear for varargs
        depth = 0; j = p.i
        while True:
            kk, vv = p.t[j]
            if vv in ("(", "[", "{", "<{"): depth += 1
            elif vv in (")", "]", "}", "}>"): depth -= 1
            elif depth == 0 and (kk in ("gid", "lid")) and j > p.i:
                # a lid may be a named type at the very start: check whether next is '(' (call) - callee must be followed by '('
                if p.t[j + 1][1] == "(": break
            elif depth == 0 and kk == "word" and vv in CAST_OPS and p.t[j + 1][1] == "(" and j > p.i: break
            elif depth == 0 and vv == "asm": break
            j += 1
        sub = Parser(p.t[p.i:j])
        t = sub.parse_type()
        if not sub.at_end(): raise NotEncoded("call type parse")
        p.i = j
        if isinstance(t, PtrT) and isinstance(t.to, FuncT): return t.to.ret if False else t   # keep full fn ptr type
        return t

# ----------------------------------------------------------------------------- C emitter
STD_TI_BASES = {   # libstdc++ exception hierarchy (typeinfo symbol -> base typeinfo symbol)
    "_ZTISt9exception": None,
    "_ZTISt9bad_alloc": "_ZTISt9exception", "_ZTISt20bad_array_new_length": "_ZTISt9bad_alloc",
    "_ZTISt8bad_cast": "_ZTISt9exception", "_ZTISt10bad_typeid": "_ZTISt9exception",
    "_ZTISt13bad_exception": "_ZTISt9exception", "_ZTISt17bad_function_call": "_ZTISt9exception",
    "_ZTISt19bad_optional_access": "_ZTISt9exception", "_ZTISt18bad_variant_access": "_ZTISt9exception",
    "_ZTISt11logic_error": "_ZTISt9exception", "_ZTISt12domain_error": "_ZTISt11logic_error",
    "_ZTISt16invalid_argument": "_ZTISt11logic_error", "_ZTISt12length_error": "_ZTISt11logic_error",
    "_ZTISt12out_of_range": "_ZTISt11logic_error", "_ZTISt13runtime_error": "_ZTISt9exception",
    "_ZTISt11range_error": "_ZTISt13runtime_error", "_ZTISt14overflow_error": "_ZTISt13runtime_error",
    "_ZTISt15underflow_error": "_ZTISt13runtime_error", "_ZTISt12system_error": "_ZTISt13runtime_error",
    "_ZTINSt8ios_base7failureB5cxx11E": "_ZTISt12system_error",
}

INT_C = {1: "uint8_t", 8: "uint8_t", 16: "uint16_t", 32: "uint32_t", 64: "uint64_t", 128: "unsigned __int128"}
SINT_C = {1: "int8_t", 8: "int8_t", 16: "int16_t", 32: "int32_t", 64: "int64_t", 128: "__int128"}

class Emitter:
    def __init__(self, m, entries, stub_names, havoc=()):
        self.m = m
        self.entries = entries
        self.stub_names = set(stub_names)
        self.havoc = set(havoc)
        self.lit_structs = {}      # key -> (name, StructT)
        self.arr_types = {}        # key -> (name, ArrT)
        self.type_decl_order = []  # emitted struct/array typedef order
        self.emitted_types = set()
        self.out_types = []
        self.needed_funcs = []
        self.needed_globals = []
        self.ext_funcs = {}        # external functions referenced: name -> Function
        self.ti_ids = {}           # typeinfo name -> small id
        self.replace = []
        self.cut_functions = []

    # ---- names
    def gname(self, name):
        return "G_" + cident(name)
    def fname(self, name):
        f = self.m.funcs.get(name)
        if f is not None and not f.defined:
            return "X_" + cident(name)
        return "F_" + cident(name)
    def lname(self, name):
        return "v_" + cident(name)
    def sname(self, name):
        return "S_" + cident(name)

    # ---- types
    def resolve(self, t):
        while isinstance(t, NamedT):
            r = self.m.named_types.get(t.name)
            if r is None: raise NotEncoded("unknown named type " + t.name)
            if isinstance(r, OpaqueT): return r
            return r
        return t

    def ctype(self, t):
        """C type string for an LLVM first-class / memory type"""
        if isinstance(t, IntT):
            if t.bits in INT_C: return INT_C[t.bits]
            if t.bits < 64: return "uint64_t"
            raise NotEncoded("integer width i%d" % t.bits)
        if isinstance(t, FloatT):
            return {"float": "float", "double": "double", "x86_fp80": "long double"}.get(t.kind) or self._ne("float kind " + t.kind)
        if isinstance(t, VoidT): return "void"
        if isinstance(t, PtrT):
            to = t.to
            if isinstance(to, FuncT):
                return self.fnptr_type(to)
            if isinstance(to, VoidT): return "uint8_t*"
            return self.ctype(to) + "*"
        if isinstance(t, ArrT):
            key = ty_key(t)
            if key not in self.arr_types:
                nm = "A%d_%s" % (len(self.arr_types), re.sub(r'[^A-Za-z0-9]', '', key)[:24])
                self.arr_types[key] = (nm, t)
                self.require_type(t.el)
                elc = self.ctype(t.el)
                self.out_types.append("typedef struct %s { %s a[%d]; } %s;" % (nm, elc, max(t.n, 1), nm))
            return self.arr_types[key][0]
        if isinstance(t, StructT):
            key = ty_key(t)
            if key not in self.lit_structs:
                nm = "LS_" + re.sub(r'[^A-Za-z0-9_]', '', key)
                if len(nm) > 60: nm = "L%d" % len(self.lit_structs)
                self.lit_structs[key] = (nm, t)
                self.emit_struct_def(nm, t)
            return "struct " + self.lit_structs[key][0]
        if isinstance(t, NamedT):
            r = self.m.named_types.get(t.name)
            if r is None: raise NotEncoded("unknown named type " + t.name)
            self.emit_named(t.name)
            return "struct " + self.sname(t.name)
        if isinstance(t, FuncT):
            raise NotEncoded("bare function type as value")
        raise NotEncoded("ctype of %r" % t)

    def _ne(self, msg): raise NotEncoded(msg)

    def fnptr_type(self, ft):
        key = "FP_" + ty_key(ft)
        if key not in self.lit_structs:
            nm = "FP%d" % len(self.lit_structs)
            self.lit_structs[key] = (nm, ft)
            ps = [self.ctype(p) for p in ft.params]
            if ft.vararg and ps: ps.append("...")
            self.out_types.append("typedef %s (*%s)(%s);" % (self.ctype(ft.ret), nm, ", ".join(ps) if ps else "void"))
        return self.lit_structs[key][0]

    def require_type(self, t):
        """make sure complete definitions of by-value member types are emitted first"""
        if isinstance(t, NamedT):
            self.emit_named(t.name)
        elif isinstance(t, (StructT, ArrT)):
            self.ctype(t)

    def emit_named(self, name):
        if name in self.emitted_types: return
        self.emitted_types.add(name)
        r = self.m.named_types[name]
        if isinstance(r, OpaqueT):
            return
        self.emit_struct_def(self.sname(name), r)

    def emit_struct_def(self, nm, st):
        for f in st.fields: self.require_type(f)
        fs = []
        for i, f in enumerate(st.fields):
            fs.append("%s f%d;" % (self.ctype(f), i))
        if not fs: fs = ["uint8_t empty_;"]
        self.out_types.append("struct %s%s { %s };" % ("__attribute__((packed)) " if st.packed else "", nm, " ".join(fs)))

    def is_agg(self, t):
        t2 = t
        return isinstance(t2, (ArrT, StructT, NamedT))

    # ---- constants / values
    def cint(self, ty, v):
        bits = ty.bits
        v &= (1 << bits) - 1
        if bits <= 32: return "((%s)%uu)" % (self.ctype(ty), v)
        if bits <= 64: return "((%s)%uull)" % (self.ctype(ty), v)
        hi, lo = v >> 64, v & ((1 << 64) - 1)
        return "((((unsigned __int128)%uull) << 64) | %uull)" % (hi, lo)

    def zero_of(self, t):
        if isinstance(t, IntT): return self.cint(t, 0)
        if isinstance(t, PtrT): return "((%s)0)" % self.ctype(t)
        if isinstance(t, FloatT): return "0.0"
        return "(%s){0}" % self.ctype(t)

    def value(self, v, static=False):
        """C expression for an operand"""
        if v is None: raise NotEncoded("metadata operand")
        if isinstance(v, Local): return self.lname(v.name)
        if isinstance(v, GlobalRef):
            name = v.name
            if name in self.m.aliases: 
                return self.value(self.m.aliases[name], static)
            if name in self.m.funcs:
                self.note_func(name)
                return "(&%s)" % self.fname(name)
            if name in self.m.globals:
                self.note_global(name)
                return "(&%s)" % self.gname(name)
            raise NotEncoded("unknown global @" + name)
        c = v
        ty = c.ty
        if c.kind == "int":
            if isinstance(ty, PtrT): return "((%s)%d)" % (self.ctype(ty), c.data)
            return self.cint(ty, c.data)
        if c.kind == "float": return repr(float(c.data))
        if c.kind == "hexfp":
            h = c.data
            if h.startswith("0xK") or h.startswith("0xL") or h.startswith("0xM") or h.startswith("0xH"): raise NotEncoded("long double constant")
            d = struct.unpack(">d", bytes.fromhex(h[2:].rjust(16, "0")))[0]
            return repr(d)
        if c.kind == "null": return "((%s)0)" % self.ctype(ty)
        if c.kind == "undef": return self.zero_of(ty) if not static else self.static_zero(ty)
        if c.kind == "zero": return self.zero_of(ty) if not static else self.static_zero(ty)
        if c.kind == "cstr":
            return self.agg_literal(ty, "{{%s}}" % ",".join(str(b) for b in c.data), static)
        if c.kind == "array":
            inner = ",".join(self.value(e, static) if not self.is_agg(e.ty) else self.init_of(e, static) for e in c.data)
            return self.agg_literal(ty, "{{%s}}" % inner, static)
        if c.kind == "struct":
            inner = ",".join(self.value(e, static) if not self.is_agg(e.ty) else self.init_of(e, static) for e in c.data)
            return self.agg_literal(ty, "{%s}" % inner, static)
        if c.kind == "gep":
            base_ty, ptr, idx = c.data
            return self.gep_expr(base_ty, ptr, idx, static)
        if c.kind == "cast":
            cop, src = c.data
            return self.cast_expr(cop, src, ty, static)
        if c.kind == "binop":
            bop, a, b = c.data
            return self.binop_expr(bop, a.ty, self.value(a, static), self.value(b, static))
        if c.kind == "icmp":
            pred, a, b = c.data
            return self.icmp_expr(pred, a.ty, self.value(a, static), self.value(b, static))
        if c.kind == "select":
            cc, a, b = c.data
            return "(%s ? %s : %s)" % (self.value(cc, static), self.value(a, static), self.value(b, static))
        raise NotEncoded("constant kind " + c.kind)

    def static_zero(self, t):
        if self.is_agg(t): return "{0}"
        return self.zero_of(t)

    def agg_literal(self, ty, braces, static):
        if static: return braces
        return "((%s)%s)" % (self.ctype(ty), braces)

    def init_of(self, c, static):
        """initializer for aggregate element (braces only when static)"""
        if isinstance(c, Const) and c.kind in ("zero", "undef"):
            return "{0}" if static else self.zero_of(c.ty)
        return self.value(c, static)

    def index_c(self, v, static):
        """GEP index as signed C expression"""
        if isinstance(v, Const) and v.kind == "int":
            bits = v.ty.bits
            d = v.data & ((1 << bits) - 1)
            if d >= 1 << (bits - 1): d -= 1 << bits
            return str(d)
        bits = v.ty.bits
        return "((%s)%s)" % (SINT_C[bits], self.value(v, static))

    def gep_expr(self, base_ty, ptr, idx, static=False):
        p = self.value(ptr, static)
        want = self.ctype(PtrT(base_ty))
        have_ty = ptr.ty
        if have_ty is None or ty_key(have_ty) != ty_key(PtrT(base_ty)):
            p = "((%s)%s)" % (want, p)
        cur = base_ty
        i0 = self.index_c(idx[0], static)
        expr = "(*(%s + %s))" % (p, i0) if i0 != "0" else "(*%s)" % p
        for ix in idx[1:]:
            r = self.resolve(cur)
            if isinstance(r, StructT):
                if not (isinstance(ix, Const) and ix.kind == "int"): raise NotEncoded("non-constant struct index")
                expr += ".f%d" % ix.data
                cur = r.fields[ix.data]
            elif isinstance(r, ArrT):
                self.ctype(r)
                expr += ".a[%s]" % self.index_c(ix, static)
                cur = r.el
            else:
                raise NotEncoded("gep into non-aggregate")
        return "(&%s)" % expr

    def gep_result_type(self, base_ty, idx):
        cur = base_ty
        for ix in idx[1:]:
            r = self.resolve(cur)
            if isinstance(r, StructT): cur = r.fields[ix.data]
            elif isinstance(r, ArrT): cur = r.el
            else: raise NotEncoded("gep type")
        return PtrT(cur)

    def cast_expr(self, cop, src, dst, static=False):
        s = self.value(src, static)
        sty = src.ty
        if cop in ("bitcast", "addrspacecast"):
            if isinstance(dst, PtrT): return "((%s)%s)" % (self.ctype(dst), s)
            if isinstance(dst, IntT) and isinstance(sty, IntT): return s
            raise NotEncoded("bitcast %s" % ty_key(dst))
        if cop == "inttoptr": return "((%s)(uintptr_t)%s)" % (self.ctype(dst), s)
        if cop == "ptrtoint": return "((%s)(uintptr_t)%s)" % (self.ctype(dst), s)
        if cop == "trunc":
            return self.mask(dst, "((%s)%s)" % (self.ctype(dst), s))
        if cop == "zext": return "((%s)%s)" % (self.ctype(dst), s)
        if cop == "sext":
            sb = sty.bits
            if sb == 1: return "((%s)(%s ? -1 : 0))" % (self.ctype(dst), s)
            if sb not in SINT_C: raise NotEncoded("sext from i%d" % sb)
            return self.mask(dst, "((%s)(%s)(%s)%s)" % (self.ctype(dst), SINT_C[dst.bits] if dst.bits in SINT_C else "int64_t", SINT_C[sb], s))
        if cop in ("uitofp",): return "((%s)%s)" % (self.ctype(dst), s)
        if cop in ("sitofp",): return "((%s)(%s)%s)" % (self.ctype(dst), SINT_C[sty.bits], s)
        if cop in ("fptoui",): return "((%s)%s)" % (self.ctype(dst), s)
        if cop in ("fptosi",): return "((%s)(%s)%s)" % (self.ctype(dst), SINT_C[dst.bits], s)
        if cop in ("fptrunc", "fpext"): return "((%s)%s)" % (self.ctype(dst), s)
        raise NotEncoded("cast " + cop)

    def mask(self, ty, e):
        if isinstance(ty, IntT) and ty.bits not in (8, 16, 32, 64, 128):
            return "(%s & %s)" % (e, self.cint(IntT(64 if ty.bits < 64 else 128), (1 << ty.bits) - 1)) if ty.bits != 1 else "((uint8_t)(%s & 1))" % e
        return e

    def wide(self, bits):
        if bits <= 32: return "uint32_t", "int32_t", 32
        if bits <= 64: return "uint64_t", "int64_t", 64
        return "unsigned __int128", "__int128", 128

    def sx(self, ty, e):
        """sign-extended value of e (type ty) in the wide signed type"""
        b = ty.bits
        W, SW, wb = self.wide(b)
        if b in SINT_C and b != 1: return "((%s)(%s)%s)" % (SW, SINT_C[b], e)
        if b == 1: return "((%s)(%s ? -1 : 0))" % (SW, e)
        sh = wb - b
        return "(((%s)((%s)%s << %d)) >> %d)" % (SW, W, e, sh, sh)

    def binop_expr(self, bop, ty, a, b):
        if isinstance(ty, FloatT):
            o = {"fadd": "+", "fsub": "-", "fmul": "*", "fdiv": "/"}.get(bop)
            if not o: raise NotEncoded("float op " + bop)
            return "(%s %s %s)" % (a, o, b)
        if not isinstance(ty, IntT): raise NotEncoded("binop on " + ty_key(ty))
        bits = ty.bits
        W, SW, wb = self.wide(bits)
        T = self.ctype(ty)
        if bop in ("add", "sub", "mul", "and", "or", "xor"):
            o = {"add": "+", "sub": "-", "mul": "*", "and": "&", "or": "|", "xor": "^"}[bop]
            return self.mask(ty, "((%s)((%s)%s %s (%s)%s))" % (T, W, a, o, W, b))
        if bop in ("udiv", "urem"):
            o = "/" if bop == "udiv" else "%"
            return "((%s)((%s)%s %s (%s)%s))" % (T, W, a, o, W, b)
        if bop in ("sdiv", "srem"):
            o = "/" if bop == "sdiv" else "%"
            return self.mask(ty, "((%s)(%s %s %s))" % (T, self.sx(ty, a), o, self.sx(ty, b)))
        if bop == "shl": return self.mask(ty, "((%s)((%s)%s << %s))" % (T, W, a, b))
        if bop == "lshr": return "((%s)((%s)%s >> %s))" % (T, W, a, b)
        if bop == "ashr": return self.mask(ty, "((%s)(%s >> %s))" % (T, self.sx(ty, a), b))
        raise NotEncoded("binop " + bop)

    def icmp_expr(self, pred, ty, a, b):
        if isinstance(ty, PtrT):
            o = {"eq": "==", "ne": "!=", "ult": "<", "ule": "<=", "ugt": ">", "uge": ">=",
                 "slt": "<", "sle": "<=", "sgt": ">", "sge": ">="}[pred]
            if pred in ("eq", "ne"): return "((uint8_t)((uint8_t*)%s %s (uint8_t*)%s))" % (a, o, b)
            return "((uint8_t)((uint8_t*)%s %s (uint8_t*)%s))" % (a, o, b)
        o = {"eq": "==", "ne": "!=", "ult": "<", "ule": "<=", "ugt": ">", "uge": ">=",
             "slt": "<", "sle": "<=", "sgt": ">", "sge": ">="}[pred]
        if pred[0] == "s":
            return "((uint8_t)(%s %s %s))" % (self.sx(ty, a), o, self.sx(ty, b))
        W, _, _ = self.wide(ty.bits)
        return "((uint8_t)((%s)%s %s (%s)%s))" % (W, a, o, W, b)

    # ---- bookkeeping
    def note_func(self, name):
        if name not in self.needed_funcs: self.needed_funcs.append(name)
    def note_global(self, name):
        if name not in self.needed_globals: self.needed_globals.append(name)

    # ---- function emission
    def fn_proto(self, f, external=False):
        ps = []
        for i, (ty, pn) in enumerate(f.params):
            cty = self.ctype(ty)
            if external and isinstance(ty, PtrT): cty = "void*"
            ps.append("%s %s" % (cty, self.lname(pn if pn is not None else str(i))))
        if f.vararg: ps.append("...")
        ret = self.ctype(f.ret)
        if external and isinstance(f.ret, PtrT): ret = "void*"
        return "%s %s(%s)" % (ret, self.fname(f.name), ", ".join(ps) if ps else "void")

    def may_throw(self, ins):
        if "nounwind" in ins.attrs: return False
        c = ins.callee
        if isinstance(c, GlobalRef):
            nm = c.name
            if nm.startswith("llvm."): return False
            f = self.m.funcs.get(nm)
            if f is not None and "nounwind" in f.attrs: return False
        return True

    def emit_function(self, f):
        out = []
        locals_ = {}     # name -> ctype
        def decl(name, ty):
            locals_[self.lname(name)] = self.ctype(ty)
        # number unnamed params/blocks: LLVM numbering -- unnamed params take %0.., then entry block takes next number
        # (parser kept explicit names; unnamed params named by index)
        body = []
        # byval copies
        for i, (ty, pn) in enumerate(f.params):
            info = f.param_info[i] if i < len(f.param_info) else {}
            if "byval" in info and isinstance(info["byval"], Ty):
                n = self.lname(pn if pn is not None else str(i))
                cty = self.ctype(info["byval"])
                body.append("  %s byval_%d = *%s; %s = &byval_%d;" % (cty, i, n, n, i))
        labels = {}
        for bi, (label, ins) in enumerate(f.blocks):
            labels[label] = "L_" + cident(label)
        # phi map: succ -> list of (phi res, ty, {pred: val})
        phis = {}
        for label, ins in f.blocks:
            for I in ins:
                if I.op == "phi":
                    phis.setdefault(label, []).append(I)
                    decl(I.res, I.ty)
        def edge(pred, succ):
            """C statements performing the phi copies for edge pred->succ, then goto"""
            ps = phis.get(succ, [])
            if not ps: return "goto %s;" % labels[succ]
            stm = []
            tmp = []
            for k, P in enumerate(ps):
                val = None
                for (v, lab) in P.inc:
                    if lab == pred or (pred == "%entry" and lab == self.entry_label_name(f)):
                        val = v; break
                if val is None: raise NotEncoded("phi without incoming for edge %s->%s in %s" % (pred, succ, f.name))
                t = "phi_t%d_%s" % (k, cident(P.res))
                locals_[t] = self.ctype(P.ty)
                tmp.append((t, P))
                stm.append("%s = %s;" % (t, self.value(val)))
            for t, P in tmp:
                stm.append("%s = %s;" % (self.lname(P.res), t))
            stm.append("goto %s;" % labels[succ])
            return "{ " + " ".join(stm) + " }"
        retzero = "return;" if isinstance(f.ret, VoidT) else "return %s;" % self.zero_of(f.ret)
        for label, ins in f.blocks:
            body.append("%s: ;" % labels[label])
            for I in ins:
                op = I.op
                if op == "phi" or op == "nop": continue
                if op == "alloca":
                    if I.count is not None:
                        if isinstance(I.count, Const) and I.count.kind == "int" and I.count.data == 1: pass
                        else: raise NotEncoded("dynamic alloca in " + f.name)
                    an = "al_" + cident(I.res)
                    locals_[an] = self.ctype(I.ty)
                    decl(I.res, PtrT(I.ty))
                    body.append("  %s = &%s;" % (self.lname(I.res), an))
                elif op == "load":
                    decl(I.res, I.ty)
                    p = self.value(I.ptr)
                    body.append("  %s = *%s;" % (self.lname(I.res), self.ptr_as(I.ptr, I.ty, p)))
                elif op == "store":
                    p = self.value(I.ptr)
                    body.append("  *%s = %s;" % (self.ptr_as(I.ptr, I.val.ty, p), self.value(I.val)))
                elif op == "gep":
                    rt = self.gep_result_type(I.base_ty, I.idx)
                    decl(I.res, rt)
                    body.append("  %s = %s;" % (self.lname(I.res), self.gep_expr(I.base_ty, I.ptr, I.idx)))
                elif op == "cast":
                    decl(I.res, I.dst)
                    body.append("  %s = %s;" % (self.lname(I.res), self.cast_expr(I.cop, I.src, I.dst)))
                elif op == "binop":
                    decl(I.res, I.ty)
                    body.append("  %s = %s;" % (self.lname(I.res), self.binop_expr(I.bop, I.ty, self.value(I.a), self.value(I.b))))
                elif op == "fneg":
                    decl(I.res, I.ty)
                    body.append("  %s = -%s;" % (self.lname(I.res), self.value(I.a)))
                elif op == "icmp":
                    decl(I.res, IntT(1))
                    body.append("  %s = %s;" % (self.lname(I.res), self.icmp_expr(I.pred, I.ty, self.value(I.a), self.value(I.b))))
                elif op == "fcmp":
                    decl(I.res, IntT(1))
                    o = {"oeq": "==", "one": "!=", "olt": "<", "ole": "<=", "ogt": ">", "oge": ">=", "ueq": "==", "une": "!=",
                         "ult": "<", "ule": "<=", "ugt": ">", "uge": ">="}.get(I.pred)
                    if not o: raise NotEncoded("fcmp " + I.pred)
                    body.append("  %s = (uint8_t)(%s %s %s);" % (self.lname(I.res), self.value(I.a), o, self.value(I.b)))
                elif op == "select":
                    decl(I.res, I.a.ty)
                    body.append("  %s = %s ? %s : %s;" % (self.lname(I.res), self.value(I.cond), self.value(I.a), self.value(I.b)))
                elif op == "freeze":
                    decl(I.res, I.val.ty)
                    body.append("  %s = %s;" % (self.lname(I.res), self.value(I.val)))
                elif op == "extractvalue":
                    ty = I.agg.ty; e = self.value(I.agg)
                    for ix in I.idx:
                        r = self.resolve(ty)
                        if isinstance(r, StructT): e += ".f%d" % ix; ty = r.fields[ix]
                        elif isinstance(r, ArrT): e += ".a[%d]" % ix; ty = r.el
                        else: raise NotEncoded("extractvalue")
                    decl(I.res, ty)
                    body.append("  %s = %s;" % (self.lname(I.res), e))
                elif op == "insertvalue":
                    decl(I.res, I.agg.ty)
                    ty = I.agg.ty; path = ""
                    for ix in I.idx:
                        r = self.resolve(ty)
                        if isinstance(r, StructT): path += ".f%d" % ix; ty = r.fields[ix]
                        elif isinstance(r, ArrT): path += ".a[%d]" % ix; ty = r.el
                    body.append("  %s = %s; %s%s = %s;" % (self.lname(I.res), self.value(I.agg), self.lname(I.res), path, self.value(I.val)))
                elif op in ("call", "invoke"):
                    body.extend(self.emit_call(f, I, decl, edge, label, retzero))
                elif op == "landingpad":
                    decl(I.res, I.ty)
                    r = self.lname(I.res)
                    body.append("  %s.f0 = (uint8_t*)vf_eh_obj; vf_eh_pending = 0;" % r)
                    conds = []
                    stm = "  %s.f1 = 0;" % r
                    for kind, cv in I.clauses:
                        if kind == "filter": 
                            continue
                        if isinstance(cv, Const) and cv.kind == "null":
                            stm += " if (%s.f1 == 0) %s.f1 = 1;" % (r, r)
                        else:
                            ti = self.ti_name(cv)
                            stm += " if (%s.f1 == 0 && vf_eh_matches(vf_eh_type, (void*)&%s)) %s.f1 = %d;" % (r, self.gname(ti), r, self.ti_id(ti))
                    body.append(stm)
                    if not I.cleanup:
                        body.append("  if (%s.f1 == 0) { vf_eh_pending = 1; %s }" % (r, retzero))
                elif op == "resume":
                    body.append("  vf_eh_obj = %s.f0; vf_eh_pending = 1; %s" % (self.value(I.val), retzero))
                elif op == "ret":
                    body.append("  return%s;" % ("" if I.val is None else " " + self.value(I.val)))
                elif op == "br":
                    body.append("  " + edge(label, I.dest))
                elif op == "condbr":
                    body.append("  if (%s) %s else %s" % (self.value(I.cond), edge(label, I.t), edge(label, I.f)))
                elif op == "switch":
                    s = "  switch (%s) {" % self.value(I.val)
                    for cv, dest in I.cases:
                        s += " case %s: %s" % (self.value(cv), edge(label, dest))
                    s += " default: %s }" % edge(label, I.default)
                    body.append(s)
                elif op == "unreachable":
                    body.append("  vf_unreachable(); %s" % retzero)
                else:
                    raise NotEncoded("emit " + op)
        params = set(self.lname(pn if pn is not None else str(i)) for i, (ty, pn) in enumerate(f.params))
        decls = ["  %s %s;" % (cty, n) for n, cty in locals_.items() if n not in params]
        hdr = self.fn_proto(f) + "\n{"
        return "\n".join([hdr] + decls + body + ["}"])

    def entry_label_name(self, f):
        # the implicit entry block is numbered after the unnamed parameters
        n = 0
        for ty, pn in f.params:
            if pn is None or re.fullmatch(r'\d+', pn): n += 1
        return str(n)

    def ptr_as(self, ptrval, valty, p):
        """pointer expression with element type valty"""
        pt = ptrval.ty
        if isinstance(pt, PtrT) and ty_key(pt.to) == ty_key(valty): return p
        return "((%s*)%s)" % (self.ctype(valty), p)

    def ti_name(self, cv):
        # catch clause operand: bitcast (T* @_ZTI... to i8*) or @_ZTI...
        c = cv
        while isinstance(c, Const) and c.kind == "cast": c = c.data[1]
        if isinstance(c, GlobalRef):
            self.note_global(c.name)
            return c.name
        raise NotEncoded("catch clause operand")
    def ti_id(self, name):
        if name not in self.ti_ids: self.ti_ids[name] = len(self.ti_ids) + 2
        return self.ti_ids[name]

    INTRINSIC_IGNORE = ("llvm.lifetime.", "llvm.dbg.", "llvm.experimental.noalias.scope.decl", "llvm.assume", "llvm.stackrestore",
                        "llvm.prefetch", "llvm.invariant.", "llvm.var.annotation", "llvm.donothing")
    def emit_call(self, f, I, decl, edge, label, retzero):
        out = []
        callee = I.callee
        name = callee.name if isinstance(callee, GlobalRef) else None
        if name and name in self.m.aliases:
            a = self.m.aliases[name]
            while isinstance(a, Const) and a.kind == "cast": a = a.data[1]
            if isinstance(a, GlobalRef): name = a.name; callee = a
        if name:
            for rx, target, _ in self.replace:
                if rx.search(name) and f.name != target:
                    name = target; callee = GlobalRef(target, None); break
        rty = I.rty
        if isinstance(rty, PtrT) and isinstance(rty.to, FuncT): rty = rty.to.ret
        argv = [a for a in I.args]
        def finish(expr, is_void):
            lines = []
            if I.res is not None and not is_void:
                decl(I.res, rty)
                lines.append("  %s = %s;" % (self.lname(I.res), expr))
            else:
                lines.append("  %s;" % expr)
            return lines
        if name and name.startswith("llvm."):
            if any(name.startswith(p) for p in self.INTRINSIC_IGNORE):
                res = []
                if I.op == "invoke": res.append("  " + edge(label, I.normal))
                return res
            base = name
            a = [self.value(x) for x in argv if x is not None]
            if base.startswith("llvm.memcpy.") or base.startswith("llvm.memmove.") or base.startswith("llvm.memcpy.inline"):
                fn = "vf_memmove" if "memmove" in base else "vf_memcpy"
                if not re.search(r"\d+ull\)+$", a[2]): fn += "_v"        # size is not a literal: see vf_rt.h
                out += ["  %s((void*)%s, (const void*)%s, (uint64_t)%s);" % (fn, a[0], a[1], a[2])]
            elif base.startswith("llvm.memset."):
                fn = "vf_memset" if re.search(r"\d+ull\)+$", a[2]) else "vf_memset_v"
                out += ["  %s((void*)%s, %s, (uint64_t)%s);" % (fn, a[0], a[1], a[2])]
            elif base.startswith("llvm.stacksave"):
                decl(I.res, rty); out += ["  %s = 0;" % self.lname(I.res)]
            elif re.match(r'llvm\.(u|s)(add|sub|mul)\.with\.overflow\.i(\d+)', base):
                mm = re.match(r'llvm\.(u|s)(add|sub|mul)\.with\.overflow\.i(\d+)', base)
                sg, o, bits = mm.group(1), mm.group(2), int(mm.group(3))
                decl(I.res, rty)
                r = self.lname(I.res)
                T = INT_C[bits]
                if sg == "u":
                    big = "unsigned __int128"
                    opx = {"add": "+", "sub": "-", "mul": "*"}[o]
                    if o == "sub":
                        out += ["  %s.f0 = (%s)(%s - %s); %s.f1 = (uint8_t)(%s < %s);" % (r, T, a[0], a[1], r, a[0], a[1])]
                    else:
                        out += ["  { %s w_ = (%s)%s %s (%s)%s; %s.f0 = (%s)w_; %s.f1 = (uint8_t)((w_ >> %d) != 0); }" % (big, big, a[0], opx, big, a[1], r, T, r, bits)]
                else:
                    big = "__int128"
                    opx = {"add": "+", "sub": "-", "mul": "*"}[o]
                    S = SINT_C[bits]
                    out += ["  { %s w_ = (%s)(%s)%s %s (%s)(%s)%s; %s.f0 = (%s)w_; %s.f1 = (uint8_t)(w_ != (%s)(%s)w_); }" % (big, big, S, a[0], opx, big, S, a[1], r, T, r, big, S)]
            elif re.match(r'llvm\.(umax|umin|smax|smin)\.i(\d+)', base):
                mm = re.match(r'llvm\.(umax|umin|smax|smin)\.i(\d+)', base)
                k, bits = mm.group(1), int(mm.group(2))
                decl(I.res, rty)
                ty = IntT(bits)
                cmp = self.icmp_expr({"umax": "ugt", "umin": "ult", "smax": "sgt", "smin": "slt"}[k], ty, a[0], a[1])
                out += ["  %s = %s ? %s : %s;" % (self.lname(I.res), cmp, a[0], a[1])]
            elif re.match(r'llvm\.(usub|uadd)\.sat\.i(\d+)', base):
                mm = re.match(r'llvm\.(usub|uadd)\.sat\.i(\d+)', base); ty = IntT(int(mm.group(2))); T = self.ctype(ty)
                decl(I.res, rty)
                if mm.group(1) == "usub": out += ["  %s = (%s > %s) ? (%s)(%s - %s) : (%s)0;" % (self.lname(I.res), a[0], a[1], T, a[0], a[1], T)]
                else: out += ["  %s = ((%s)(%s + %s) < %s) ? (%s)~(%s)0 : (%s)(%s + %s);" % (self.lname(I.res), T, a[0], a[1], a[0], T, T, T, a[0], a[1])]
            elif re.match(r'llvm\.abs\.i(\d+)', base):
                bits = int(re.match(r'llvm\.abs\.i(\d+)', base).group(1)); ty = IntT(bits)
                decl(I.res, rty)
                out += ["  %s = (%s < 0) ? (%s)(0 - %s) : %s;" % (self.lname(I.res), self.sx(ty, a[0]), self.ctype(ty), a[0], a[0])]
            elif re.match(r'llvm\.ctpop\.i(\d+)', base):
                decl(I.res, rty); out += ["  %s = (%s)vf_popcount64((uint64_t)%s);" % (self.lname(I.res), self.ctype(rty), a[0])]
            elif re.match(r'llvm\.(ctlz|cttz)\.i(\d+)', base):
                mm = re.match(r'llvm\.(ctlz|cttz)\.i(\d+)', base)
                decl(I.res, rty); out += ["  %s = (%s)vf_%s((uint64_t)%s, %s);" % (self.lname(I.res), self.ctype(rty), mm.group(1), a[0], mm.group(2))]
            elif re.match(r'llvm\.bswap\.i(\d+)', base):
                bits = int(re.match(r'llvm\.bswap\.i(\d+)', base).group(1))
                decl(I.res, rty); out += ["  %s = (%s)vf_bswap((uint64_t)%s, %d);" % (self.lname(I.res), self.ctype(rty), a[0], bits)]
            elif re.match(r'llvm\.bitreverse\.i(\d+)', base):
                bits = int(re.match(r'llvm\.bitreverse\.i(\d+)', base).group(1))
                decl(I.res, rty); out += ["  %s = (%s)vf_bitreverse((uint64_t)%s, %d);" % (self.lname(I.res), self.ctype(rty), a[0], bits)]
            elif re.match(r'llvm\.fsh(l|r)\.i(\d+)', base):
                mm = re.match(r'llvm\.fsh(l|r)\.i(\d+)', base); bits = int(mm.group(2))
                decl(I.res, rty); out += ["  %s = (%s)vf_fsh%s((uint64_t)%s, (uint64_t)%s, (uint64_t)%s, %d);" % (self.lname(I.res), self.ctype(rty), mm.group(1), a[0], a[1], a[2], bits)]
            elif base.startswith("llvm.expect."):
                decl(I.res, rty); out += ["  %s = %s;" % (self.lname(I.res), a[0])]
            elif base == "llvm.trap" or base == "llvm.debugtrap":
                out += ["  vf_trap();"]
            elif base == "llvm.eh.typeid.for":
                decl(I.res, rty)
                ti = self.ti_name(argv[0])
                out += ["  %s = %d;" % (self.lname(I.res), self.ti_id(ti))]
            elif base.startswith("llvm.objectsize"):
                decl(I.res, rty); out += ["  %s = %s;" % (self.lname(I.res), self.cint(rty, -1))]
            elif base.startswith("llvm.is.constant"):
                decl(I.res, rty); out += ["  %s = 0;" % self.lname(I.res)]
            else:
                raise NotEncoded("intrinsic " + base)
            if I.op == "invoke": out.append("  " + edge(label, I.normal))
            return out
        if name in ("vf_assert", "vf_witness", "vf_assume", "vf_observe") or (name and name.startswith("vf_nondet_")):
            if name == "vf_assume":
                out.append("  VF_ASSUME(%s);" % self.value(argv[0]))
            elif name == "vf_assert":
                try: msg = self.cstring_of(argv[1])
                except NotEncoded: msg = '"assertion (two source assertions merged by the optimiser)"'
                out.append("  VF_ASSERT(%s, %s);" % (self.value(argv[0]), msg))
            elif name == "vf_observe":
                out.append("  VF_OBSERVE((uint64_t)%s);" % self.value(argv[0]))
            elif name == "vf_witness":
                try: msg = self.cstring_of(argv[0])
                except NotEncoded: msg = '"reachability points merged by the optimiser"'
                out.append("  VF_WITNESS(%s);" % msg)
            else:
                decl(I.res, rty)
                out.append("  %s = (%s)vf_nondet_u64();" % (self.lname(I.res), self.ctype(rty)))
            if I.op == "invoke": out.append("  " + edge(label, I.normal))
            return out
        # ordinary call
        is_void = isinstance(rty, VoidT)
        if name is not None and name in self.m.funcs:
            fn = self.m.funcs[name]
            self.note_func(name)
            args = []
            for i, a in enumerate(argv):
                e = self.value(a)
                if i < len(fn.params):
                    pty = fn.params[i][0]
                    if not fn.defined and isinstance(pty, PtrT): e = "(void*)" + e
                    elif ty_key(pty) != ty_key(a.ty): e = "((%s)%s)" % (self.ctype(pty), e)
                args.append(e)
            expr = "%s(%s)" % (self.fname(name), ", ".join(args))
            if not fn.defined and isinstance(fn.ret, PtrT): expr = "((%s)%s)" % (self.ctype(rty), expr)
            elif not is_void and ty_key(fn.ret) != ty_key(rty): expr = "((%s)%s)" % (self.ctype(rty), expr)
        else:
            # indirect call through a function pointer value
            ft = FuncT(rty, [a.ty for a in argv], False)
            if isinstance(I.rty, PtrT) and isinstance(I.rty.to, FuncT): ft = I.rty.to
            fp = self.value(callee) if not isinstance(callee, Local) else self.lname(callee.name)
            expr = "((%s)%s)(%s)" % (self.fnptr_type(ft), fp, ", ".join(self.value(a) for a in argv))
        out += finish(expr, is_void)
        if I.op == "invoke":
            out.append("  if (vf_eh_pending) %s else %s" % (edge(label, I.unwind), edge(label, I.normal)))
        elif self.may_throw(I):
            out.append("  if (vf_eh_pending) { %s }" % retzero)
        return out

    def cstring_of(self, v):
        """C string literal for a constant pointer to a string global (assert messages)"""
        c = v
        while isinstance(c, Const) and c.kind in ("cast", "gep"): c = c.data[1]
        if isinstance(c, GlobalRef) and c.name in self.m.globals:
            init = self.m.globals[c.name]["init"]
            if init is not None and init.kind == "cstr":
                txt = init.data.split(b"\0")[0].decode("latin-1")
                return '"' + re.sub(r'[^A-Za-z0-9 _.,:;()<>=+*/%!?#\[\]{}|&^~-]', "_", txt) + '"'
            if init is not None and init.kind == "zero": return '""'
        raise NotEncoded("assert/witness message must be a string literal")

    # ---- globals
    def emit_global(self, name, defs, decls):
        g = self.m.globals[name]
        ty = g["ty"]
        cty_ok = True
        r = self.resolve(ty)
        if isinstance(r, OpaqueT):
            decls.append("uint8_t %s[4096];" % self.gname(name))    # opaque external object: storage only
            return
        cty = self.ctype(ty)
        if g["external"]:
            # external object (std::cout, a cxxabi vtable, ...): storage only, with slack after it because the
            # IR forms addresses past its declared type (vtable address points)
            decls.append("struct { %s v; uint8_t slack[256]; } GW_%s;\n#define %s (GW_%s.v)" % (cty, cident(name), self.gname(name), cident(name)))
            return
        decls.append("%s %s;" % (cty, self.gname(name)))
        init = g["init"]
        if isinstance(init, Const) and init.kind in ("zero", "undef"):
            return
        if self.is_agg(ty): iv = self.init_of(init, True)
        else: iv = self.value(init, True)
        defs.append("%s %s = %s;" % (cty, self.gname(name), iv))

    # ---- driver
    def run(self):
        m = self.m
        for e in self.entries:
            if e not in m.funcs or not m.funcs[e].defined: raise NotEncoded("entry function %s not defined in IR" % e)
            self.note_func(e)
        fn_bodies = []
        done_f = set(); done_g = set()
        gdefs, gdecls = [], []
        for c in m.ctors: pass
        progress = True
        while progress:
            progress = False
            for name in list(self.needed_funcs):
                if name in done_f: continue
                done_f.add(name); progress = True
                f = m.funcs[name]
                if f.defined:
                    fn_bodies.append(self.emit_function(f))
                else:
                    self.ext_funcs[name] = f
            for name in list(self.needed_globals):
                if name in done_g: continue
                done_g.add(name); progress = True
                self.emit_global(name, gdefs, gdecls)
        # typeinfo inheritance table
        ti_rows = []
        all_ti = [n for n in done_g if n.startswith("_ZTI")]
        for n in all_ti:
            g = m.globals[n]
            base = None
            init = g["init"]
            if init is not None and init.kind == "struct" and len(init.data) >= 3:
                vt = init.data[0]
                vts = self._root_global(vt)
                if vts and "si_class_type_info" in vts:
                    base = self._root_global(init.data[2])
                elif vts and "vmi_class_type_info" in vts:
                    # { vptr, name, flags, count, base0, off0, ... } : take every base (first match wins at runtime)
                    bases = [self._root_global(x) for x in init.data[4::2]]
                    bases = [b for b in bases if b]
                    for b in bases: ti_rows.append((n, b))
                    continue
            elif init is None:
                base = STD_TI_BASES.get(n)
            if base:
                if base not in done_g and base in m.globals:
                    self.note_global(base); self.emit_global(base, gdefs, gdecls); done_g.add(base)
                ti_rows.append((n, base))
        # std typeinfos always available to the runtime stubs
        extra_ti = []
        for n, b in STD_TI_BASES.items():
            if n not in done_g:
                extra_ti.append(n); done_g.add(n)
                gdecls.append("struct { uint8_t* v; uint8_t slack[256]; } GW_%s;\n#define %s (GW_%s.v)" % (cident(n), self.gname(n), cident(n)))
            if b: ti_rows.append((n, b))
        chg = True
        # external function policy
        protos = []
        missing = []
        autostubs = []
        for name, f in self.ext_funcs.items():
            protos.append(self.fn_proto(f, external=True) + ";")
            cn = self.fname(name)
            if cn in self.stub_names: continue
            if name in self.havoc or "*" in self.havoc:
                autostubs.append(self.havoc_stub(f))
            else:
                missing.append(name)
        if missing:
            raise NotEncoded("external functions without a model: " + ", ".join(sorted(missing)))
        parts = []
        parts.append("/* generated by tools/ir2c.py -- do not edit */")
        parts.append('#include "vf_rt.h"')
        # struct forward declarations
        for n in m.named_types: parts.append("struct %s;" % self.sname(n))
        parts.extend(self.out_types)
        for key, (nm, _) in self.lit_structs.items():
            parts.append("#define VF_HAVE_%s 1" % nm)
        parts.append("/* ---- external functions (modelled in stubs) */")
        parts.extend(protos)
        parts.append("/* ---- function prototypes */")
        for name in self.needed_funcs:
            f = m.funcs[name]
            if f.defined: parts.append(self.fn_proto(f) + ";")
        parts.append("/* ---- globals */")
        parts.extend(gdecls)
        parts.extend(gdefs)
        parts.append("/* ---- exception type table */")
        parts.append("static int vf_eh_matches(const void *thrown, const void *want)\n{\n  const void *t = thrown;\n  for (int depth = 0; depth < 8; ++depth) {\n    if (t == want) return 1;\n    const void *nx = 0;")
        seen = set()
        for n, b in ti_rows:
            if (n, b) in seen: continue
            seen.add((n, b))
            parts.append("    if (t == (const void*)&%s) nx = (const void*)&%s;" % (self.gname(n), self.gname(b)))
        parts.append("    if (!nx) return 0;\n    t = nx;\n  }\n  return 0;\n}")
        parts.append("#define VF_HAVE_TYPES 1")
        parts.append('#include "vf_stubs.c"')
        parts.extend(autostubs)
        parts.append("/* ---- translated functions */")
        parts.extend(fn_bodies)
        for e in self.entries:
            parts.append("/* entry wrapper: an exception that leaves the harness escaped every handler of the code under test */")
            parts.append("void vf_main_%s(void)\n{\n  %s();\n  VF_ASSERT(!vf_eh_pending, \"no exception escapes uncaught\");\n}" % (cident(e), self.fname(e)))
        if m.ctors:
            parts.append("void vf_global_ctors(void) {")
            for c in m.ctors:
                if c in done_f and m.funcs[c].defined: parts.append("  %s();" % self.fname(c))
            parts.append("}")
        return "\n".join(parts) + "\n"

    def _root_global(self, c):
        while isinstance(c, Const) and c.kind in ("cast", "gep"):
            c = c.data[1]
        if isinstance(c, GlobalRef): return c.name
        return None

    def havoc_stub(self, f):
        proto = self.fn_proto(f, external=True)
        if isinstance(f.ret, VoidT): return proto + " { }"
        if isinstance(f.ret, PtrT):
            # functions returning a reference to their first argument (ostream inserters): return arg 0
            if f.params and isinstance(f.params[0][0], PtrT):
                return proto + " { return %s; }" % self.lname(f.params[0][1] if f.params[0][1] is not None else "0")
            return proto + " { return 0; }"
        if isinstance(f.ret, IntT):
            return proto + " { return (%s)vf_nondet_u64(); }" % self.ctype(f.ret)
        return proto + " { %s r = {0}; return r; }" % self.ctype(f.ret)

def scan_stub_names(paths):
    names = set()
    for p in paths:
        txt = open(p).read()
        for mm in re.finditer(r'\b(X_[A-Za-z0-9_]+)\s*\(', txt):
            names.add(mm.group(1))
        for mm in re.finditer(r'^VF_EXC_CLASS\((\w+)\)', txt, re.M):
            n = mm.group(1)
            S = "RKNSt7__cxx1112basic_stringIcSt11char_traitsIcESaIcEEE"
            for suf in ("C1EPKc", "C2EPKc", "C1E" + S, "C2E" + S, "D1Ev", "D2Ev", "D0Ev"):
                names.add("X__ZN" + n + suf)
    return names

def translate(ir_text, entries, stub_paths, havoc=(), noop_re=(), replace=()):
    """noop_re: regexes over mangled names of DEFINED functions whose bodies are cut and replaced by a
    do-nothing / nondeterministic stub (function-level stubbing; every cut is reported by the caller)."""
    m = ModuleParser(ir_text).parse()
    havoc = list(havoc)
    cut = []
    for name, f in m.funcs.items():
        if f.defined and any(re.search(rx, name) for rx in noop_re):
            f.defined = False; f.blocks = []; havoc.append(name); cut.append(name)
    em = Emitter(m, entries, scan_stub_names(stub_paths), havoc)
    em.cut_functions = cut
    # function-level replacement: direct calls to a function whose mangled name matches the regex are
    # redirected to a harness-defined function (contract stub with ghost bookkeeping) of the same ABI signature
    em.replace = []
    for spec in replace:
        rx, _, target = spec.partition("=")
        tn = [n for n in m.funcs if n == target or re.search(r"(^|[0-9])%s($|E|[A-Z])" % re.escape(target), n) and m.funcs[n].defined]
        exact = [n for n in m.funcs if n == target]
        cand = exact or [n for n in m.funcs if target in n and m.funcs[n].defined]
        if len(cand) != 1: raise NotEncoded("replacement target %r matches %d functions" % (target, len(cand)))
        hit = [n for n in m.funcs if re.search(rx, n)]
        if not hit: raise NotEncoded("replacement pattern /%s/ matches no function (was it inlined? build the IR with -fno-inline)" % rx)
        em.replace.append((re.compile(rx), cand[0], hit))
    return em.run(), em

def main():
    ap = argparse.ArgumentParser()
    ap.add_argument("ir"); ap.add_argument("-o", required=True)
    ap.add_argument("--entry", required=True)
    ap.add_argument("--stub-src", action="append", default=[])
    ap.add_argument("--havoc", default="")
    ap.add_argument("--noop-re", action="append", default=[])
    ap.add_argument("--replace", action="append", default=[], help="REGEX=harness_function")
    a = ap.parse_args()
    try:
        text, em = translate(open(a.ir).read(), a.entry.split(","), a.stub_src, [h for h in a.havoc.split(",") if h], a.noop_re, a.replace)
    except NotEncoded as e:
        print("NOT-ENCODED: %s" % e, file=sys.stderr)
        sys.exit(3)
    open(a.o, "w").write(text)
    if em.cut_functions: print("cut (body replaced by a no-op stub): " + ", ".join(em.cut_functions))
    for rx, target, hit in em.replace: print("calls to %s redirected to %s" % (", ".join(hit), target))
    print("translated %d functions, %d globals, %d external models used" % (len([f for f in em.needed_funcs if em.m.funcs[f].defined]), len(em.needed_globals), len(em.ext_funcs)))

if __name__ == "__main__":
    main()
