#!/usr/bin/env python3
"""Regenerates MANIFEST.json from the registry (claimed properties) and the
CLAIMS / NOT_APPLICABLE tables below.  Run after adding or removing a check."""
import json, os, sys
HERE = os.path.dirname(os.path.abspath(__file__))
sys.path.insert(0, HERE)
import registry

TECH_C = "bounded model checking (CBMC 6.11, SAT back end CaDiCaL) of the real C source, symbolic input bytes, reference decoder as oracle"
TECH_CXX = ("bounded model checking (CBMC 6.11 / CaDiCaL) of the real C++ functions lowered by clang-14 to LLVM IR and translated "
            "to C by tools/ir2c.py; symbolic inputs; counterexamples replayed against a native g++ build of the same code")

CLAIMS = {
 "C03": dict(
   text="For every line body of <= L bytes (L=5 quick, 9 thorough), every line number, LISTO 0..7 and every dialect, the solver shows the real "
        "decode_line emits exactly the events (line number field, LISTO space, indentation, keyword/literal/target, newline) the documents define; "
        "for every file of <= N bytes (16 quick; thorough 28 big-endian, 20 little-endian) the real framing functions hand decode_line exactly the documented lines; the real build_mapping "
        "tables equal the documented tables; main dispatches framing by dialect and '-' to standard input. Bounded, not a proof.",
   note="oracle harness/c/ref.h + spec/tokens.json transcribed from doc/bbcbasic.5; stdio model env.h; lines longer than L / files longer than N "
        "outside the verdict (decode_line's per-byte loop carries only in_string/len/p); CBMC + CaDiCaL trusted",
   ref="5 C03", tech=TECH_C),
 "C08": dict(
   text="For arbitrary line bodies (<= L bytes), arbitrary files (<= N = 20 quick; thorough 40 big-endian, 28 little-endian, length byte unconstrained so the 1024-byte static buffer and the "
        "len-3/len-4 wrap are exercised), all dialects and LISTO values, and every command-line shape of <= 3 options and <= 3 operands: no bounds, "
        "pointer, signed-overflow or shift violation, all loops terminate within the unwinding bound, exit status in {0,1}, non-zero status implies a "
        "diagnostic, option state is initialised before use (NDEBUG and assert builds).",
   note="getopt_long/strtol/fopen/fclose modelled by contract (harness/c/h_main.c); body of the undocumented -D dump option not encoded; glibc itself trusted",
   ref="5 C08", tech=TECH_C),
 "C09": dict(
   text="Every line the oracle classifies as ill-formed (unassigned token or extension code, 0x8D/extension cut by end of line, Windows fast variables, NUL) "
        "is rejected with a diagnostic; every file (<= N = 12 bytes; thorough 14 big-endian) that is truncated or ill-framed is rejected with a diagnostic and the lines decoded "
        "before the failure are exactly the complete documented lines; with two files decoded in one execution (shared static buffers) each file's lines "
        "depend only on that file; the framing oracle is prefix-monotone (so 'output is a prefix of the intact output'); exit status accumulates over files.",
   note="as C03; the prefix clause is obtained by composition (real == oracle, oracle prefix-monotone), each half solver-decided",
   ref="5 C09", tech=TECH_C),
}

CLAIMS["C01"] = dict(
   text="Solver-decided kernels of the byte-delivery path: (K1) every catalogue accessor equals the DFS bit-field layout for all 2^128 name+metadata "
        "values; (K2) visit_file_body_piecewise reads exactly sectors start.. in order and hands on exactly the catalogued number of bytes, piece by piece, "
        "for every start sector and every length up to the bound (1024 quick / 4096 thorough), with unreadable sectors raising BadFileSystem; (K3) the "
        "Opus volume window maps sector n to origin+n. Renderings (type/list/dump) and name lookup are separate obligations (see evidence).",
   note="bounded by file length; command-level composition (body_command) argued, not solver-decided; stubs/vf_stubs.c models; IR->C translator validated each run",
   ref="5 C01", tech=TECH_CXX)
CLAIMS["C17"] = dict(
   text="For every 32-bit origin/length and 64-bit sector number the volume window forwards a read iff it lies inside the volume; the surface window "
        "(FileView) and flux adapters likewise (obligations listed in evidence).",
   note="as C01", ref="5 C17", tech=TECH_CXX)

CLAIMS["C04"] = dict(
   text="FileView::read_block (the single place where a surface is mapped onto a container file) is decided for every skip/leave/total and every "
        "sector number, per constant value of take produced by the container constructors; FilePresentedBlockwise maps sector n to byte offset 256n "
        "and refuses partial sectors; dump-sector's track/sector arguments are accepted iff they are decimal numbers within the geometry "
        "(every argument string of <= 3 characters); container constructors (SSD/DSD/MMB view parameters) are NOT decided.",
   note="symbolic take stalls every back end (SAT, z3, cvc5 bv-as-int; recorded in DESIGN), so take ranges over the 13 values the constructors can produce",
   ref="5 C04", tech=TECH_CXX)
CLAIMS["C06"] = dict(
   text="Gate query: the real FM/MFM decoder glue with its bit-level helpers replaced by contract stubs yields exactly the records whose ID field and "
        "data field both passed the CRC check and whose mark is a data mark, with the address of the CRC-checked ID that precedes them, for every "
        "schedule of helper answers within the bound; the CRC routine is CRC-16/CCITT (one-step lemma for every state and byte).",
   note="assume/guarantee: helper contracts (scan_for returns a position >= start, copy appends n bytes and advances 16n bits) are checked on the real helpers by separate kernels; "
        "bounded by the number of helper calls per track and sector sizes 128/256",
   ref="5 C06", tech=TECH_CXX)
CLAIMS["C16"] = dict(
   text="Drive-number arithmetic for all 2^32 numbers and the slot-fitting predicate for every occupancy of drives 0..23 and images of 1..3 surfaces; "
        "allocation histories on the real StorageConfiguration are a separate obligation.",
   note="as C01", ref="5 C16", tech=TECH_CXX)

CLAIMS["C02"] = dict(
   text="Catalogue decoding kernels: every accessor of a catalogue entry equals the DFS bit-field layout (all 2^128 values, sign extension at bit 17 "
        "included); the CatalogFragment constructor yields the 12-character 7-bit title, cycle, boot option, total sectors, entry count and the k-th "
        "entry (symbolic k) from arbitrary catalogue sectors; the CRC routine used for .inf files is CRC-16/XMODEM (one-step lemma). Listing order "
        "(cat comparator) and line formats are separate obligations when present in evidence.",
   note="bounded by entries per fragment (3 quick, 8 thorough; 31 did not pass its unwinding assertions and is not claimed); ostream formatting is modelled by harness/cxx/iomodel.h", ref="5 C02", tech=TECH_CXX)
CLAIMS["C13"] = dict(
   text="smells_like_watford / smells_like_hdfs decided for every sector 1 (256 symbolic bytes) and every 8-byte prefix of sector 2: Watford iff the "
        "recognition bytes are present and no catalogued file starts in sector 2 (10-bit start sector); further identification kernels as listed in evidence.",
   note="Opus recognition and geometry choice covered only where listed in evidence", ref="5 C13", tech=TECH_CXX)
CLAIMS["C11"] = dict(
   text="bbcbasic_to_text: with stdout failing from an arbitrary call on (ISO C contract model: a call reports failure and sets the error indicator, "
        "or is buffered and fails at the final flush) decode_line fails with perror, and main returns non-zero with a diagnostic whenever output was lost. "
        "dfs: the sector walk stops when the visitor reports a failed write, and extract-files returns success only if every open/write/close "
        "of every output file succeeded (ofstream model failing nondeterministically).",
   note="byte-offset granularity abstracted to call granularity; glibc/libstdc++ buffering not modelled beyond the ISO contract; dfs main()'s exit status "
        "(flush and test of std::cout) is outside the claim (not encoded)", ref="5 C11 / 10", tech=TECH_C + "; dfs part: " + TECH_CXX)
CLAIMS["C19"] = dict(
   text="Both build flavours of the BASIC decoder (NDEBUG as pinned, and assertions enabled where a failing assert is itself a reported property) are "
        "compared with the same oracle on the same symbolic inputs (lines, files, command lines): each equals the oracle, hence they equal each other.",
   note="dfs units are covered for the NDEBUG flavour only unless listed in evidence", ref="5 C19", tech=TECH_C)

CLAIMS["C05"] = dict(
   text="Decomposed: bit reversal (all bytes); CRC-16/CCITT one-step lemma; the HFE v1/v3 opcode interpreter copy_hfe against the format description "
        "for every input of <= 5 (thorough 7) bytes; HFE header / track-table decoding; the HFE and HxC adapters return the sector recorded under "
        "exactly (lba div spt, side, lba mod spt) or fail, on both sides of the disc. The monolithic 'encode a disc, decode it' round trip and the decoder "
        "glue are NOT decided (no verdict within budget, see DESIGN.md 10).",
   note="SKIPBITS semantics excluded (specification not available offline); track decoders' glue outside the claim", ref="5 C05 / 10", tech=TECH_CXX)
CLAIMS["C06"] = dict(
   text="CRC routine = CRC-16/CCITT for every state and byte (induction step); HxC and HFE adapters never return a sector other than the one addressed "
        "when a damaged sector was dropped by track decoding (every position of the dropped sector on a 2x2 surface, lba symbolic). The decoder glue "
        "(every yielded sector passed both CRC checks) could not be decided within budget and is outside the claim.",
   note="see DESIGN.md 10 for the two attempted encodings of the decoder glue and their measured cost", ref="5 C06 / 10", tech=TECH_CXX)
CLAIMS["C15"] = dict(
   text="Case-insensitive comparison = lexicographic order of lower-cased strings (all strings of <= 3 seven-bit characters); CatalogEntry::has_name "
        "finds an entry iff the directory is identical and the name equal ignoring case. Wildcard-to-regex translation is outside the claim (glibc regex).",
   note="bounded string length 3; glibc regcomp/regexec not modelled", ref="5 C15", tech=TECH_CXX)

CLAIMS["C07"] = dict(
   text="Parsing kernels on arbitrary input, each with CBMC's bounds/pointer/overflow/shift checks on the translated real code and the "
        "assertion that no exception other than the documented ones escapes: HxC MFM header and track list on files of arbitrary size and "
        "contents, HFE header and opcode interpreter, catalogue-fragment validation, Opus disc catalogue, FileView/blockwise sector mapping, "
        "Watford recognition, zlib error-code mapping, the --verbose HFE header dump, Volume/Catalog construction on unreadable catalogue sectors "
        "(exceptions are thrown as objects). The command-level claim (exit status, message on stderr) is covered for the commands "
        "listed in evidence only.",
   note="bounded per kernel (evidence lists sizes); FM/MFM track decoder glue, gzip inflate loop and the full mount path are outside the claim (DESIGN.md 10)",
   ref="5 C07 / 10", tech=TECH_CXX)
CLAIMS["C10"] = dict(
   text="DecompressedFile::read on the decompressed temporary file: for every offset/length and every fseek/fread outcome allowed by ISO C the "
        "bytes returned are those at that offset, short reads shorten the result, errors raise FileIOError; zlib return codes map to the documented errors.",
   note="the inflate loop itself (zlib) and the choice of image type from the name inside the .gz are outside the claim (zlib not encoded)",
   ref="5 C10 / 10", tech=TECH_CXX)
CLAIMS["C14"] = dict(
   text="The real `free` and `space` commands run on an in-memory Acorn DFS disc with a symbolic catalogue (entry count constant per query: 0 and 2 "
        "quick, 0..3 thorough; start sectors, lengths and total sector count symbolic, catalogue well-formed): sectors used + sectors free = "
        "total, used counts the catalogue plus every sector of every file exactly once, `space` lists exactly the gaps between files and their sum "
        "equals the free total; Catalog::map_sectors attributes to the catalogue and to each file exactly its sectors and nothing to zero-length files.",
   note="Watford/Opus/HDFS catalogues, the sector-map rendering and extract-unused's span loop are outside the claim (no verdict for the Watford variant, DESIGN.md 10); more than 3 files outside the bound; std::vector<unsigned> growth replaced by a fixed-capacity model",
   ref="5 C14 / 10", tech=TECH_CXX)
CLAIMS["C18"] = dict(
   text="--verbose adds text on standard error only: smells_like_watford (format probing) and hexdump_bytes run with the flag off and on over the "
        "same symbolic input give the same result, the same device reads and the same standard-output events; the verbose HFE header dump writes to "
        "the given stream only and never reads past a header field.",
   note="the verbose paths of the HFE/HxC track decoders could not be decided (out of memory even for 2-byte inputs) and are outside the claim",
   ref="5 C18 / 10", tech=TECH_CXX)

CLAIMS["C12"] = dict(
   text="The real extract-files command run on an in-memory drive whose single catalogue entry has arbitrary name and directory bytes (all 2^64 values), "
        "for destination directories with and without a trailing slash and of length 1 and 3: every host file it opens (recorded by the ofstream model) has a path that "
        "is the destination, one separator, and a final component without any separator.",
   note="extract-unused (names derived from sector numbers only) and the read-only opening of images are argued in DESIGN.md, not solver-decided; "
        "std::string replaced by a fixed-capacity value model for the encoding (replay and validation use the real std::string)",
   ref="5 C12 / 10", tech=TECH_CXX)

NOT_APPLICABLE = {}

LEVEL = "model_checking"

def main():
    props = [json.loads(l) for l in open(os.path.join(HERE, "..", "properties.jsonl"))]
    checks = []
    na = []
    for p in props:
        pid = p["id"]
        if pid in registry.PROPS and pid in CLAIMS:
            c = CLAIMS[pid]
            checks.append({
                "property_id": pid,
                "quick_cmd": "./check %s --tier quick" % pid,
                "thorough_cmd": "./check %s --tier thorough" % pid,
                "evidence_file": "/verif/evidence/%s.json" % pid,
                "replay_cmd_template": "./check %s --replay {path}" % pid,
                "engine": "cbmc",
                "level_claimed": {"category": LEVEL, "text": c["text"], "design_ref": "DESIGN.md section " + c["ref"]},
                "level_note": c["note"],
                "technique": c["tech"],
            })
        else:
            na.append({"property_id": pid, "reason": NOT_APPLICABLE.get(pid, "check not built yet (work in progress; DESIGN.md section 5 has the plan)")})
    m = {"version": 1,
         "setup_cmd": "python3 -m py_compile tools/*.py && ./check --selftest",
         "hooks": {"guard": "BEEBTOOLS_VERIF",
                   "enable": "no hooks: the harness translation units #include the real /repo sources, nothing in /repo is guarded (guard name reserved)",
                   "baseline_off_cmd": "./tools/baseline.sh", "source_commits": [], "add_only": True},
         "engines": [{"name": "cbmc", "path": "/usr/local/bin/cbmc", "serves_properties": [c["property_id"] for c in checks],
                      "kind_free_text": "CBMC 6.11.0 bounded model checker (C front end) with CaDiCaL; C++ units reach it through clang-14 LLVM IR and tools/ir2c.py"}],
         "checks": checks, "not_applicable": na,
         "notes": "Solver-based checking only; every verdict is bounded (bounds in evidence/<id>.json). known_findings.json lists repaired/recorded defects."}
    json.dump(m, open(os.path.join(HERE, "..", "MANIFEST.json"), "w"), indent=1)
    print("MANIFEST: %d checks, %d not applicable" % (len(checks), len(na)))

if __name__ == "__main__":
    main()
