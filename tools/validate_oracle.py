#!/usr/bin/env python3
"""Validates the listing oracle (tools/ref_basic.py == harness/c/ref.h) by
pushing the repository's own golden test inputs through it (Serval-style
validation of the encoding, not a verdict on the property).  Prints a summary;
exit 1 if the oracle disagrees with a golden listing it claims to define."""
import os, sys, glob
sys.path.insert(0, os.path.dirname(os.path.abspath(__file__)))
import ref_basic as R
REPO = os.environ.get("VERIF_REPO", "/repo")

def main():
    td = os.path.join(REPO, "basic", "testdata")
    n = agree = unspec = 0
    bad = []
    for ddir in sorted(glob.glob(os.path.join(td, "inputs", "*"))):
        dialect = os.path.basename(ddir)
        for f in sorted(glob.glob(os.path.join(ddir, "*"))):
            data = open(f, "rb").read()
            for listo in range(8):
                for ext in ("txt", "bin"):
                    g = os.path.join(td, "golden", dialect, "%s_listo%d.%s" % (os.path.basename(f), listo, ext))
                    if not os.path.exists(g): continue
                    n += 1
                    v, text = R.ref_file(dialect, data, listo)
                    if v == R.UNSPEC: unspec += 1; continue
                    if v == R.ACCEPT and text == open(g, "rb").read(): agree += 1
                    else: bad.append((f, listo, v))
    print("oracle validation: %d golden listings, %d agree, %d outside the oracle's claim (unspec), %d disagree"
          % (n, agree, unspec, len(bad)))
    for b in bad[:10]: print("  DISAGREE", b)
    return 1 if bad else 0

if __name__ == "__main__":
    sys.exit(main())
