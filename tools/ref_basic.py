#!/usr/bin/env python3
"""Python twin of harness/c/ref.h + the framing reference of h_framing.c, rendering
text.  Used (a) to replay solver counterexamples against the real
bbcbasic_to_text binary, (b) to validate the oracle itself against the repo's
golden listings (tools/validate_oracle.py)."""
import json, os
HERE = os.path.dirname(os.path.abspath(__file__))
SPEC = json.load(open(os.path.join(HERE, "..", "spec", "tokens.json")))
ACCEPT, REJECT, UNSPEC = "accept", "reject", "unspec"

def canon(name):
    return SPEC["synonyms"].get(name, name)

def canonical_target(b1, b2, b3):
    return (b2 & 0xC0) == 0x40 and (b3 & 0xC0) == 0x40 and ((b1 ^ 0x54) & ~0x3C & 0xFF) == 0

def ref_line(dialect, hi, lo, data, indent_in, listo):
    """-> (verdict, text(bytes), indent_out)"""
    t = SPEC["tables"][canon(dialect)]
    base = t["base"]
    out = bytearray()
    n_next = n_until = n_for = n_rep = 0
    items = []
    p = 0; in_string = False; L = len(data)
    while p < L:
        b = data[p]; p += 1
        if b == 0: return REJECT, b"", indent_in
        if in_string:
            items.append(bytes([b]))
            if b == 0x22: in_string = False
            continue
        e = base["0x%02X" % b]
        if e in ("invalid", "fastvar"): return REJECT, b"", indent_in
        if e == "unspec": return UNSPEC, b"", indent_in
        if e == "linenum":
            if L - p < 3: return REJECT, b"", indent_in
            b1, b2, b3 = data[p:p+3]
            if not canonical_target(b1, b2, b3): return UNSPEC, b"", indent_in
            n = (((b3 ^ (b1 << 4)) & 0xFF) << 8) | (b2 ^ ((b1 << 2) & 0xC0))
            items.append(str(n).encode()); p += 3; continue
        if e in ("ext6", "ext7", "ext8"):
            if L - p < 1: return REJECT, b"", indent_in
            e2 = t["c" + e[3]]["0x%02X" % data[p]]; p += 1
            if e2 == "unspec": return UNSPEC, b"", indent_in
            if not isinstance(e2, dict): return REJECT, b"", indent_in
            items.append(e2["s"].encode()); continue
        if e == "pdp_c8":
            if L - p < 1: return REJECT, b"", indent_in
            if data[p] == 0x98: items.append(b"QUIT"); p += 1
            else: items.append(b"LOAD")
            continue
        if e == "self": items.append(bytes([b]))
        else: items.append(e["s"].encode())
        if b == 0xED: n_next += 1
        if b == 0xFD: n_until += 1
        if b == 0xE3: n_for += 1
        if b == 0xF5: n_rep += 1
        if b == 0x22: in_string = True
    num = 256 * hi + lo
    out += (b"%5d" % num) if num else b"     "
    if listo & 1: out += b" "
    indent = indent_in
    if listo & 2: indent -= 2 * n_next
    if listo & 4: indent -= 2 * n_until
    if indent > 0: out += b" " * indent
    for it in items: out += it
    out += b"\n"
    if listo & 2: indent += 2 * n_for
    if listo & 4: indent += 2 * n_rep
    return ACCEPT, bytes(out), indent

def ref_file(dialect, data, listo):
    """-> (verdict, text of all complete well-formed lines before the end/error)"""
    d = canon(dialect)
    be = d in SPEC["big_endian"]
    n = len(data); pos = 0; out = bytearray(); indent = 0
    if n == 0: return UNSPEC, b""
    while True:
        if be:
            if pos >= n: return REJECT, bytes(out)
            if data[pos] != 0x0D: return REJECT, bytes(out)
            pos += 1
            if pos >= n: return REJECT, bytes(out)
            hi = data[pos]; pos += 1
            if hi == 0xFF: return (ACCEPT if pos >= n else UNSPEC), bytes(out)
            if pos >= n: return REJECT, bytes(out)
            lo = data[pos]; pos += 1
            if pos >= n: return REJECT, bytes(out)
            ln = data[pos]; pos += 1
            if ln < 4: return REJECT, bytes(out)
            body = ln - 4
            if n - pos < body: return REJECT, bytes(out)
            line = data[pos:pos+body]; pos += body
        else:
            if pos >= n: return REJECT, bytes(out)
            ln = data[pos]; pos += 1
            if ln == 0:
                for _ in range(2):
                    if pos >= n or data[pos] != 0xFF: return REJECT, bytes(out)
                    pos += 1
                return (ACCEPT if pos >= n else UNSPEC), bytes(out)
            if ln < 3: return REJECT, bytes(out)
            if pos >= n: return REJECT, bytes(out)
            lo = data[pos]; pos += 1
            if pos >= n: return REJECT, bytes(out)
            hi = data[pos]; pos += 1
            if ln == 3: return UNSPEC, bytes(out)
            body = ln - 3
            if n - pos < body: return REJECT, bytes(out)
            if data[pos+body-1] != 0x0D: return REJECT, bytes(out)
            line = data[pos:pos+body-1]; pos += body
        v, text, indent = ref_line(d, hi, lo, line, indent, listo)
        if v != ACCEPT: return v, bytes(out)
        out += text
