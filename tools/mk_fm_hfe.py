#!/usr/bin/env python3
"""Builds a small FM-encoded HFE v1 image (40 tracks, 10 sectors, 1 or 2 sides) holding a minimal
Acorn DFS file system per side.  usage: mk_fm_hfe.py out.hfe [sides]   (used for demonstrations/replays)"""
import sys
TRACKS, SECTORS = 40, 10
def crc16(data):
    crc = 0xFFFF
    for b in data:
        crc ^= b << 8
        for _ in range(8):
            crc = ((crc << 1) ^ 0x1021) & 0xFFFF if crc & 0x8000 else (crc << 1) & 0xFFFF
    return crc
def mkdisc(title, body):
    disc = bytearray(TRACKS * SECTORS * 256)
    disc[0:8] = title.ljust(8, b'\0')[:8]
    s1 = 256
    disc[s1+5] = 8; disc[s1+6] = (400 >> 8) & 3; disc[s1+7] = 400 & 0xFF
    disc[8:16] = b'HELLO  $'
    ent = s1 + 8
    disc[ent+4:ent+6] = len(body).to_bytes(2, 'little'); disc[ent+7] = 24
    disc[24*256:24*256+len(body)] = body
    return disc
def fm(byte, clock=0xFF):
    out = []
    for i in range(7, -1, -1):
        out.append((clock >> i) & 1); out.append((byte >> i) & 1)
    return out
def record(cyl, head, rec, payload):
    bits = []
    for _ in range(16): bits += fm(0xFF)
    for _ in range(6): bits += fm(0x00)
    ident = bytes([0xFE, cyl, head, rec, 1]); ident += crc16(ident).to_bytes(2, 'big')
    bits += fm(0xFE, 0xC7)
    for b in ident[1:]: bits += fm(b)
    for _ in range(11): bits += fm(0xFF)
    for _ in range(6): bits += fm(0x00)
    bits += fm(0xFB, 0xC7)
    blk = bytes([0xFB]) + bytes(payload); blk += crc16(blk).to_bytes(2, 'big')
    for b in blk[1:]: bits += fm(b)
    return bits
def side_bytes(cells):
    raw = []
    for c in cells: raw += [0, c]
    while len(raw) % 8: raw.append(0)
    out = bytearray()
    for i in range(0, len(raw), 8):
        v = 0
        for b in range(8): v |= raw[i+b] << b
        out.append(v)
    while len(out) % 256: out.append(0)
    return out
def main():
    out = sys.argv[1]; sides = int(sys.argv[2]) if len(sys.argv) > 2 else 1
    discs = [mkdisc(b'SIDE%d' % s, b'HELLO FROM SIDE %d\r' % s) for s in range(sides)]
    tracks = []
    for cyl in range(TRACKS):
        per = []
        for s in range(sides):
            bits = []
            for rec in range(SECTORS):
                lba = cyl * SECTORS + rec
                bits += record(cyl, s, rec, discs[s][lba*256:(lba+1)*256])
            for _ in range(40): bits += fm(0xFF)
            per.append(side_bytes(bits))
        n = max(len(p) for p in per)
        blob = bytearray()
        for i in range(0, n, 256):
            blob += per[0][i:i+256].ljust(256, b'\0')
            blob += (per[1][i:i+256] if sides > 1 else b'').ljust(256, b'\0')
        tracks.append(blob)
    hdr = bytearray(b'\xFF' * 512)
    hdr[0:8] = b'HXCPICFE'; hdr[8] = 0; hdr[9] = TRACKS; hdr[10] = sides; hdr[11] = 2
    hdr[12:14] = (250).to_bytes(2, 'little'); hdr[14:16] = (0).to_bytes(2, 'little'); hdr[16] = 7; hdr[17] = 1
    hdr[18:20] = (1).to_bytes(2, 'little')
    lut = bytearray(b'\xFF' * 512); pos = 2; data = bytearray()
    for i, blob in enumerate(tracks):
        lut[4*i:4*i+2] = pos.to_bytes(2, 'little'); lut[4*i+2:4*i+4] = len(blob).to_bytes(2, 'little')
        pad = (-len(blob)) % 512
        data += blob + b'\0' * pad; pos += (len(blob) + pad) // 512
    open(out, 'wb').write(bytes(hdr) + bytes(lut) + bytes(data))
main()
