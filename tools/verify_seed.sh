#!/bin/sh
# usage: verify_seed.sh <seed-dir containing patch.diff demo.sh>   (prints a JSON-ish summary)
# Confirms, in a scratch worktree of /repo HEAD: patch applies, builds, all 39 tests pass,
# demo.sh fails with the patch and passes without it.  Removes the worktree afterwards.
set -u
SEED=$(cd "$1" && pwd)
WT=/tmp/wt/verify-$$
git -C /repo worktree add -q --detach "$WT" HEAD || exit 2
trap 'git -C /repo worktree remove --force "$WT" >/dev/null 2>&1; rm -rf "$WT"' EXIT
cd "$WT" || exit 2
bld() { cmake -G Ninja -S "$WT" -B "$WT/_build" -DCMAKE_BUILD_TYPE=RelWithDebInfo -DCMAKE_C_FLAGS=-Wno-error -DCMAKE_CXX_FLAGS=-Wno-error >/dev/null 2>&1 && cmake --build "$WT/_build" -j16 >/dev/null 2>&1; }
if ! git apply --3way "$SEED/patch.diff" >/dev/null 2>&1 && ! git apply "$SEED/patch.diff" >/dev/null 2>&1; then echo "RESULT applies=no"; exit 1; fi
bld || { echo "RESULT applies=yes builds=no"; exit 1; }
ctest --test-dir "$WT/_build" -j8 --timeout 900 >/tmp/ctest-$$.log 2>&1; T=$?
PASSLINE=$(grep -E 'tests passed' /tmp/ctest-$$.log); rm -f /tmp/ctest-$$.log
( cd "$SEED" && sh demo.sh "$WT/_build" >/tmp/demo-with-$$.log 2>&1 ); DW=$?
git checkout -q -- . ; git reset -q --hard HEAD
bld || { echo "RESULT rebuild-failed"; exit 1; }
( cd "$SEED" && sh demo.sh "$WT/_build" >/tmp/demo-without-$$.log 2>&1 ); DO=$?
echo "RESULT applies=yes builds=yes ctest_rc=$T ($PASSLINE) demo_with_patch_rc=$DW demo_without_patch_rc=$DO"
tail -2 /tmp/demo-with-$$.log | sed 's/^/  with: /'; rm -f /tmp/demo-with-$$.log /tmp/demo-without-$$.log
[ "$T" = 0 ] && [ "$DW" != 0 ] && [ "$DO" = 0 ]
