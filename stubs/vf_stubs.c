/* Hand-written C models of the external functions the translated C++ code
 * calls (libc leaf functions, C++ runtime, out-of-line libstdc++ members).
 * #included at the end of the type section of every generated file, so the
 * generated struct types and the G__ZTI* typeinfo objects are visible.
 * Every model is part of the trusted base and is listed in the evidence. */

/* ---------------------------------------------------------------- operator new/delete */
static void *vf_alloc(uint64_t n)
{
  void *p = malloc(n ? (size_t)n : 1);
#ifdef __CPROVER__
  __CPROVER_assume(p != 0);        /* allocation failure is outside every property */
#endif
  return p;
}
void *X__Znwm(uint64_t n) { return vf_alloc(n); }
void *X__Znam(uint64_t n) { return vf_alloc(n); }
void X__ZdlPv(void *p) { free(p); }
void X__ZdaPv(void *p) { free(p); }
void X__ZdlPvm(void *p, uint64_t n) { (void)n; free(p); }

/* ---------------------------------------------------------------- C++ EH runtime */
void *X___cxa_allocate_exception(uint64_t n) { void *p = vf_alloc(n); memset(p, 0, (size_t)n); return p; }
void X___cxa_free_exception(void *p) { (void)p; }
void X___cxa_throw(void *obj, void *tinfo, void *dtor) { (void)dtor; vf_eh_obj = obj; vf_eh_type = tinfo; vf_eh_pending = 1; }
void *X___cxa_begin_catch(void *p) { return p; }
void X___cxa_end_catch(void) { }
void X___cxa_rethrow(void) { vf_eh_pending = 1; }
uint32_t X___cxa_guard_acquire(void *g) { return *(uint8_t *)g == 0; }
void X___cxa_guard_release(void *g) { *(uint8_t *)g = 1; }
void X___cxa_guard_abort(void *g) { (void)g; }
uint32_t X___cxa_atexit(void *f, void *a, void *d) { (void)f; (void)a; (void)d; return 0; }
void X___cxa_pure_virtual(void) { VF_ASSERT(0, "pure virtual function called"); VF_STOP(); }
void X__ZSt9terminatev(void) { vf_terminated = 1; VF_ASSERT(0, "std::terminate called"); VF_STOP(); }
void X_abort(void) { vf_terminated = 1; VF_ASSERT(0, "abort called"); VF_STOP(); }
void X___clang_call_terminate(void *p) { (void)p; vf_terminated = 1; VF_ASSERT(0, "std::terminate called (noexcept violated)"); VF_STOP(); }
#ifndef VF_ASSERT_FAIL_CUSTOM
void X___assert_fail(void *e, void *f, uint32_t l, void *fn) { (void)e; (void)f; (void)l; (void)fn; VF_ASSERT(0, "assert() failed in an assertion-enabled build"); VF_STOP(); }
#endif

static void vf_throw_std(const void *ti) { vf_eh_obj = vf_alloc(32); vf_eh_type = ti; vf_eh_pending = 1; }
void X__ZSt20__throw_length_errorPKc(void *m) { (void)m; vf_throw_std(&G__ZTISt12length_error); }
void X__ZSt19__throw_logic_errorPKc(void *m) { (void)m; vf_throw_std(&G__ZTISt11logic_error); }
void X__ZSt20__throw_out_of_rangePKc(void *m) { (void)m; vf_throw_std(&G__ZTISt12out_of_range); }
void X__ZSt24__throw_out_of_range_fmtPKcz(void *m, ...) { (void)m; vf_throw_std(&G__ZTISt12out_of_range); }
void X__ZSt24__throw_invalid_argumentPKc(void *m) { (void)m; vf_throw_std(&G__ZTISt16invalid_argument); }
void X__ZSt17__throw_bad_allocv(void) { vf_throw_std(&G__ZTISt9bad_alloc); }
void X__ZSt28__throw_bad_array_new_lengthv(void) { vf_throw_std(&G__ZTISt20bad_array_new_length); }
void X__ZSt25__throw_bad_function_callv(void) { vf_throw_std(&G__ZTISt17bad_function_call); }
void X__ZSt16__throw_bad_castv(void) { vf_throw_std(&G__ZTISt8bad_cast); }
void X__ZSt27__throw_bad_optional_accessv(void) { vf_throw_std(&G__ZTISt19bad_optional_access); }

/* ---------------------------------------------------------------- libc leaf functions */
uint64_t X_strlen(void *s) { const uint8_t *p = (const uint8_t *)s; uint64_t n = 0; while (p[n]) n++; return n; }
uint32_t X_memcmp(void *a, void *b, uint64_t n)
{
  const uint8_t *x = (const uint8_t *)a, *y = (const uint8_t *)b;
  for (uint64_t i = 0; i < n; ++i) if (x[i] != y[i]) return x[i] < y[i] ? (uint32_t)-1 : 1u;
  return 0;
}
uint32_t X_bcmp(void *a, void *b, uint64_t n) { return X_memcmp(a, b, n); }
void *X_memchr(void *s, uint32_t c, uint64_t n)
{
  uint8_t *p = (uint8_t *)s;
  for (uint64_t i = 0; i < n; ++i) if (p[i] == (uint8_t)c) return p + i;
  return 0;
}
/* "C" locale character classes */
uint32_t X_isgraph(uint32_t c) { return c > 0x20 && c < 0x7F; }
uint32_t X_isdigit(uint32_t c) { return c >= '0' && c <= '9'; }
uint32_t X_isupper(uint32_t c) { return c >= 'A' && c <= 'Z'; }
uint32_t X_toupper(uint32_t c) { return (c >= 'a' && c <= 'z') ? c - 32 : c; }
uint32_t X_tolower(uint32_t c) { return (c >= 'A' && c <= 'Z') ? c + 32 : c; }
#ifdef VF_HAVE_LS_s_i64_i64_e
struct LS_s_i64_i64_e X_ldiv(uint64_t a, uint64_t b)
{
  struct LS_s_i64_i64_e r;
  r.f0 = (uint64_t)((int64_t)a / (int64_t)b);
  r.f1 = (uint64_t)((int64_t)a % (int64_t)b);
  return r;
}
#endif

/* ---------------------------------------------------------------- std::__cxx11::basic_string<char>
 * Out-of-line members (explicitly instantiated in libstdc++.so), written
 * against the object layout { char *p; size_t len; union { char buf[16]; size_t cap; } }.
 * The differential validation run compares them with the real library. */
#define STR_P(s)     (*(uint8_t **)(s))
#define STR_LEN(s)   (*(uint64_t *)((uint8_t *)(s) + 8))
#define STR_LOCAL(s) ((uint8_t *)(s) + 16)
#define STR_CAP(s)   (*(uint64_t *)((uint8_t *)(s) + 16))

/* ---------------------------------------------------------------- bounded byte copies for std::string members
 * CBMC's built-in memcpy/memmove/memset allocate a variable-length array of the (symbolic) size, which makes the
 * array post-processing explode when string lengths are symbolic.  With -DVF_STR_SMALL=N (chosen per obligation)
 * the string models copy byte by byte and ASSERT that no copy is longer than N, so nothing is silently truncated. */
#ifdef VF_STR_SMALL
static void vf_s_copy(void *dv, const void *sv, uint64_t n)
{
  uint8_t *d = (uint8_t *)dv; const uint8_t *s = (const uint8_t *)sv; uint8_t tmp[VF_STR_SMALL];
  VF_ASSERT(n <= VF_STR_SMALL, "string model: copy longer than VF_STR_SMALL");
  for (uint64_t i = 0; i < VF_STR_SMALL; ++i) if (i < n) tmp[i] = s[i];
  for (uint64_t i = 0; i < VF_STR_SMALL; ++i) if (i < n) d[i] = tmp[i];
}
static void vf_s_set(void *dv, int c, uint64_t n)
{
  uint8_t *d = (uint8_t *)dv;
  VF_ASSERT(n <= VF_STR_SMALL, "string model: fill longer than VF_STR_SMALL");
  for (uint64_t i = 0; i < VF_STR_SMALL; ++i) if (i < n) d[i] = (uint8_t)c;
}
#define SMEMCPY(d, s, n)  vf_s_copy((d), (s), (uint64_t)(n))
#define SMEMMOVE(d, s, n) vf_s_copy((d), (s), (uint64_t)(n))
#define SMEMSET(d, c, n)  vf_s_set((d), (c), (uint64_t)(n))
#else
#define SMEMCPY  memcpy
#define SMEMMOVE memmove
#define SMEMSET  memset
#endif
#define STR_MAX      0x3fffffffffffffffull
static int str_is_local(void *s) { return STR_P(s) == STR_LOCAL(s); }
static uint64_t str_capacity(void *s) { return str_is_local(s) ? 15 : STR_CAP(s); }
static void str_dispose(void *s) { if (!str_is_local(s)) free(STR_P(s)); }
static void str_set_length(void *s, uint64_t n) { STR_LEN(s) = n; STR_P(s)[n] = 0; }

void *X__ZNSt7__cxx1112basic_stringIcSt11char_traitsIcESaIcEE9_M_createERmm(void *self, void *capp, uint64_t old)
{
  (void)self;
  uint64_t *cap = (uint64_t *)capp;
  if (*cap > STR_MAX) { vf_throw_std(&G__ZTISt12length_error); return 0; }
  if (*cap > old && *cap < 2 * old) { *cap = 2 * old; if (*cap > STR_MAX) *cap = STR_MAX; }
  /* storage is rounded up to 64 bytes: the excess is unobservable to client code and keeps the heap shape concrete
   * for the short strings (names, paths) the harnesses build with symbolic lengths */
  return vf_alloc(*cap + 1 <= 64 ? 64 : *cap + 1);
}
void X__ZNSt7__cxx1112basic_stringIcSt11char_traitsIcESaIcEE9_M_mutateEmmPKcm(void *s, uint64_t pos, uint64_t len1, void *src, uint64_t len2)
{
  uint64_t how_much = STR_LEN(s) - pos - len1;
  uint64_t new_cap = STR_LEN(s) + len2 - len1;
  uint8_t *r = (uint8_t *)X__ZNSt7__cxx1112basic_stringIcSt11char_traitsIcESaIcEE9_M_createERmm(s, &new_cap, str_capacity(s));
  if (vf_eh_pending) return;
  if (pos) SMEMCPY(r, STR_P(s), pos);
  if (src && len2) SMEMCPY(r + pos, src, len2);
  if (how_much) SMEMCPY(r + pos + len2, STR_P(s) + pos + len1, how_much);
  str_dispose(s);
  STR_P(s) = r;
  STR_CAP(s) = new_cap;
}
void X__ZNSt7__cxx1112basic_stringIcSt11char_traitsIcESaIcEE7reserveEm(void *s, uint64_t res)
{
  uint64_t cap = str_capacity(s);
  if (res <= cap) return;
  uint8_t *r = (uint8_t *)X__ZNSt7__cxx1112basic_stringIcSt11char_traitsIcESaIcEE9_M_createERmm(s, &res, cap);
  if (vf_eh_pending) return;
  SMEMCPY(r, STR_P(s), STR_LEN(s) + 1);
  str_dispose(s);
  STR_P(s) = r;
  STR_CAP(s) = res;
}
void *X__ZNSt7__cxx1112basic_stringIcSt11char_traitsIcESaIcEE9_M_appendEPKcm(void *s, void *src, uint64_t n)
{
  uint64_t len = n + STR_LEN(s);
  if (len <= str_capacity(s)) { if (n) SMEMCPY(STR_P(s) + STR_LEN(s), src, n); }
  else { X__ZNSt7__cxx1112basic_stringIcSt11char_traitsIcESaIcEE9_M_mutateEmmPKcm(s, STR_LEN(s), 0, src, n); if (vf_eh_pending) return s; }
  str_set_length(s, len);
  return s;
}
void X__ZNSt7__cxx1112basic_stringIcSt11char_traitsIcESaIcEE9_M_assignERKS4_(void *s, void *o)
{
  if (s == o) return;
  uint64_t rsize = STR_LEN(o), cap = str_capacity(s);
  if (rsize > cap) {
    uint64_t nc = rsize;
    uint8_t *r = (uint8_t *)X__ZNSt7__cxx1112basic_stringIcSt11char_traitsIcESaIcEE9_M_createERmm(s, &nc, cap);
    if (vf_eh_pending) return;
    str_dispose(s); STR_P(s) = r; STR_CAP(s) = nc;
  }
  if (rsize) SMEMCPY(STR_P(s), STR_P(o), rsize);
  str_set_length(s, rsize);
}
void *X__ZNSt7__cxx1112basic_stringIcSt11char_traitsIcESaIcEE10_M_replaceEmmPKcm(void *s, uint64_t pos, uint64_t len1, void *src, uint64_t len2)
{
  uint64_t old = STR_LEN(s);
  if (len2 > STR_MAX - (old - len1)) { vf_throw_std(&G__ZTISt12length_error); return s; }
  uint64_t ns = old + len2 - len1;
  if (ns <= str_capacity(s)) {
    uint8_t *p = STR_P(s) + pos;
    uint64_t how_much = old - pos - len1;
    /* source never aliases the string in the code under test (checked: no self-replace); plain moves */
    if (how_much && len1 != len2) SMEMMOVE(p + len2, p + len1, how_much);
    if (len2) SMEMMOVE(p, src, len2);
  } else {
    X__ZNSt7__cxx1112basic_stringIcSt11char_traitsIcESaIcEE9_M_mutateEmmPKcm(s, pos, len1, src, len2);
    if (vf_eh_pending) return s;
  }
  str_set_length(s, ns);
  return s;
}
void *X__ZNSt7__cxx1112basic_stringIcSt11char_traitsIcESaIcEE14_M_replace_auxEmmmc(void *s, uint64_t pos, uint64_t n1, uint64_t n2, uint8_t c)
{
  uint64_t old = STR_LEN(s);
  if (n2 > STR_MAX - (old - n1)) { vf_throw_std(&G__ZTISt12length_error); return s; }
  uint64_t ns = old + n2 - n1;
  if (ns <= str_capacity(s)) {
    uint8_t *p = STR_P(s) + pos;
    uint64_t how_much = old - pos - n1;
    if (how_much && n1 != n2) SMEMMOVE(p + n2, p + n1, how_much);
  } else {
    X__ZNSt7__cxx1112basic_stringIcSt11char_traitsIcESaIcEE9_M_mutateEmmPKcm(s, pos, n1, 0, n2);
    if (vf_eh_pending) return s;
  }
  if (n2) SMEMSET(STR_P(s) + pos, c, n2);
  str_set_length(s, ns);
  return s;
}
void X__ZNSt7__cxx1112basic_stringIcSt11char_traitsIcESaIcEE8_M_eraseEmm(void *s, uint64_t pos, uint64_t n)
{
  uint64_t how_much = STR_LEN(s) - pos - n;
  if (how_much && n) SMEMMOVE(STR_P(s) + pos, STR_P(s) + pos + n, how_much);
  str_set_length(s, STR_LEN(s) - n);
}
void X__ZNSt7__cxx1112basic_stringIcSt11char_traitsIcESaIcEE10_M_disposeEv(void *s) { str_dispose(s); }
void X__ZNSt7__cxx1112basic_stringIcSt11char_traitsIcESaIcEE6resizeEmc(void *s, uint64_t n, uint8_t c)
{
  uint64_t len = STR_LEN(s);
  if (len < n) X__ZNSt7__cxx1112basic_stringIcSt11char_traitsIcESaIcEE14_M_replace_auxEmmmc(s, len, 0, n - len, c);
  else if (n < len) str_set_length(s, n);
}
uint32_t X__ZNKSt7__cxx1112basic_stringIcSt11char_traitsIcESaIcEE7compareEPKc(void *s, void *c)
{
  uint64_t size = STR_LEN(s), osize = X_strlen(c), len = size < osize ? size : osize;
  int32_t r = (int32_t)X_memcmp(STR_P(s), c, len);
  if (!r) { int64_t d = (int64_t)(size - osize); r = d > 2147483647 ? 2147483647 : d < -2147483647 - 1 ? -2147483647 - 1 : (int32_t)d; }
  return (uint32_t)r;
}
uint64_t X__ZNKSt7__cxx1112basic_stringIcSt11char_traitsIcESaIcEE16find_last_not_ofEPKcmm(void *s, void *set, uint64_t pos, uint64_t n)
{
  uint64_t size = STR_LEN(s);
  if (size) {
    if (--size > pos) size = pos;
    do {
      if (!X_memchr(set, STR_P(s)[size], n)) return size;
    } while (size-- != 0);
  }
  return ~0ull;
}
uint64_t X__ZNKSt7__cxx1112basic_stringIcSt11char_traitsIcESaIcEE4findEcm(void *s, uint8_t c, uint64_t pos)
{
  uint64_t size = STR_LEN(s);
  if (pos < size) { uint8_t *p = (uint8_t *)X_memchr(STR_P(s) + pos, c, size - pos); if (p) return (uint64_t)(p - STR_P(s)); }
  return ~0ull;
}
uint64_t X__ZNKSt7__cxx1112basic_stringIcSt11char_traitsIcESaIcEE5rfindEcm(void *s, uint8_t c, uint64_t pos)
{
  uint64_t size = STR_LEN(s);
  if (size) { if (--size > pos) size = pos; for (++size; size-- > 0;) if (STR_P(s)[size] == c) return size; }
  return ~0ull;
}

/* ---------------------------------------------------------------- libstdc++ exception base classes */
void X__ZNSt9exceptionD2Ev(void *self) { (void)self; }
void X__ZNSt9exceptionD1Ev(void *self) { (void)self; }

/* Used only where a harness CUTS the inline constructor basic_string(const char*) because the
   string is a diagnostic message irrelevant to the property: constructs the empty string. */
void X__ZNSt7__cxx1112basic_stringIcSt11char_traitsIcESaIcEEC2IS3_EEPKcRKS3_(void *s, void *lit, void *alloc)
{
  (void)lit; (void)alloc;
  STR_P(s) = STR_LOCAL(s); STR_LEN(s) = 0; STR_LOCAL(s)[0] = 0;
}

/* ---------------------------------------------------------------- glibc ctype tables, "C" locale (generated from the running glibc at authoring time) */
static const uint16_t vf_ctype_b[384] = {0,0,0,0,0,0,0,0,0,0,0,0,0,0,0,0,0,0,0,0,0,0,0,0,0,0,0,0,0,0,0,0,0,0,0,0,0,0,0,0,0,0,0,0,0,0,0,0,0,0,0,0,0,0,0,0,0,0,0,0,0,0,0,0,0,0,0,0,0,0,0,0,0,0,0,0,0,0,0,0,0,0,0,0,0,0,0,0,0,0,0,0,0,0,0,0,0,0,0,0,0,0,0,0,0,0,0,0,0,0,0,0,0,0,0,0,0,0,0,0,0,0,0,0,0,0,0,0,2,2,2,2,2,2,2,2,2,8195,8194,8194,8194,8194,2,2,2,2,2,2,2,2,2,2,2,2,2,2,2,2,2,2,24577,49156,49156,49156,49156,49156,49156,49156,49156,49156,49156,49156,49156,49156,49156,49156,55304,55304,55304,55304,55304,55304,55304,55304,55304,55304,49156,49156,49156,49156,49156,49156,49156,54536,54536,54536,54536,54536,54536,50440,50440,50440,50440,50440,50440,50440,50440,50440,50440,50440,50440,50440,50440,50440,50440,50440,50440,50440,50440,49156,49156,49156,49156,49156,49156,54792,54792,54792,54792,54792,54792,50696,50696,50696,50696,50696,50696,50696,50696,50696,50696,50696,50696,50696,50696,50696,50696,50696,50696,50696,50696,49156,49156,49156,49156,2,0,0,0,0,0,0,0,0,0,0,0,0,0,0,0,0,0,0,0,0,0,0,0,0,0,0,0,0,0,0,0,0,0,0,0,0,0,0,0,0,0,0,0,0,0,0,0,0,0,0,0,0,0,0,0,0,0,0,0,0,0,0,0,0,0,0,0,0,0,0,0,0,0,0,0,0,0,0,0,0,0,0,0,0,0,0,0,0,0,0,0,0,0,0,0,0,0,0,0,0,0,0,0,0,0,0,0,0,0,0,0,0,0,0,0,0,0,0,0,0,0,0,0,0,0,0,0,0,};
static const int32_t vf_ctype_lo[384] = {128,129,130,131,132,133,134,135,136,137,138,139,140,141,142,143,144,145,146,147,148,149,150,151,152,153,154,155,156,157,158,159,160,161,162,163,164,165,166,167,168,169,170,171,172,173,174,175,176,177,178,179,180,181,182,183,184,185,186,187,188,189,190,191,192,193,194,195,196,197,198,199,200,201,202,203,204,205,206,207,208,209,210,211,212,213,214,215,216,217,218,219,220,221,222,223,224,225,226,227,228,229,230,231,232,233,234,235,236,237,238,239,240,241,242,243,244,245,246,247,248,249,250,251,252,253,254,-1,0,1,2,3,4,5,6,7,8,9,10,11,12,13,14,15,16,17,18,19,20,21,22,23,24,25,26,27,28,29,30,31,32,33,34,35,36,37,38,39,40,41,42,43,44,45,46,47,48,49,50,51,52,53,54,55,56,57,58,59,60,61,62,63,64,97,98,99,100,101,102,103,104,105,106,107,108,109,110,111,112,113,114,115,116,117,118,119,120,121,122,91,92,93,94,95,96,97,98,99,100,101,102,103,104,105,106,107,108,109,110,111,112,113,114,115,116,117,118,119,120,121,122,123,124,125,126,127,128,129,130,131,132,133,134,135,136,137,138,139,140,141,142,143,144,145,146,147,148,149,150,151,152,153,154,155,156,157,158,159,160,161,162,163,164,165,166,167,168,169,170,171,172,173,174,175,176,177,178,179,180,181,182,183,184,185,186,187,188,189,190,191,192,193,194,195,196,197,198,199,200,201,202,203,204,205,206,207,208,209,210,211,212,213,214,215,216,217,218,219,220,221,222,223,224,225,226,227,228,229,230,231,232,233,234,235,236,237,238,239,240,241,242,243,244,245,246,247,248,249,250,251,252,253,254,255,};
static const int32_t vf_ctype_up[384] = {128,129,130,131,132,133,134,135,136,137,138,139,140,141,142,143,144,145,146,147,148,149,150,151,152,153,154,155,156,157,158,159,160,161,162,163,164,165,166,167,168,169,170,171,172,173,174,175,176,177,178,179,180,181,182,183,184,185,186,187,188,189,190,191,192,193,194,195,196,197,198,199,200,201,202,203,204,205,206,207,208,209,210,211,212,213,214,215,216,217,218,219,220,221,222,223,224,225,226,227,228,229,230,231,232,233,234,235,236,237,238,239,240,241,242,243,244,245,246,247,248,249,250,251,252,253,254,-1,0,1,2,3,4,5,6,7,8,9,10,11,12,13,14,15,16,17,18,19,20,21,22,23,24,25,26,27,28,29,30,31,32,33,34,35,36,37,38,39,40,41,42,43,44,45,46,47,48,49,50,51,52,53,54,55,56,57,58,59,60,61,62,63,64,65,66,67,68,69,70,71,72,73,74,75,76,77,78,79,80,81,82,83,84,85,86,87,88,89,90,91,92,93,94,95,96,65,66,67,68,69,70,71,72,73,74,75,76,77,78,79,80,81,82,83,84,85,86,87,88,89,90,123,124,125,126,127,128,129,130,131,132,133,134,135,136,137,138,139,140,141,142,143,144,145,146,147,148,149,150,151,152,153,154,155,156,157,158,159,160,161,162,163,164,165,166,167,168,169,170,171,172,173,174,175,176,177,178,179,180,181,182,183,184,185,186,187,188,189,190,191,192,193,194,195,196,197,198,199,200,201,202,203,204,205,206,207,208,209,210,211,212,213,214,215,216,217,218,219,220,221,222,223,224,225,226,227,228,229,230,231,232,233,234,235,236,237,238,239,240,241,242,243,244,245,246,247,248,249,250,251,252,253,254,255,};
static const uint16_t *vf_ctype_b_ptr = vf_ctype_b + 128;
static const int32_t *vf_ctype_lo_ptr = vf_ctype_lo + 128;
static const int32_t *vf_ctype_up_ptr = vf_ctype_up + 128;
void *X___ctype_b_loc(void) { return (void *)&vf_ctype_b_ptr; }
void *X___ctype_tolower_loc(void) { return (void *)&vf_ctype_lo_ptr; }
void *X___ctype_toupper_loc(void) { return (void *)&vf_ctype_up_ptr; }

/* ---------------------------------------------------------------- <stdexcept> classes (out of line in libstdc++): message not modelled */
#define VF_EXC_CLASS(mangled_len_name) \
  void X__ZN##mangled_len_name##C1EPKc(void *self, void *msg) { (void)self; (void)msg; } \
  void X__ZN##mangled_len_name##C2EPKc(void *self, void *msg) { (void)self; (void)msg; } \
  void X__ZN##mangled_len_name##C1ERKNSt7__cxx1112basic_stringIcSt11char_traitsIcESaIcEEE(void *self, void *msg) { (void)self; (void)msg; } \
  void X__ZN##mangled_len_name##C2ERKNSt7__cxx1112basic_stringIcSt11char_traitsIcESaIcEEE(void *self, void *msg) { (void)self; (void)msg; } \
  void X__ZN##mangled_len_name##D1Ev(void *self) { (void)self; } \
  void X__ZN##mangled_len_name##D2Ev(void *self) { (void)self; } \
  void X__ZN##mangled_len_name##D0Ev(void *self) { free(self); }
VF_EXC_CLASS(St12out_of_range)
VF_EXC_CLASS(St11range_error)
VF_EXC_CLASS(St13runtime_error)
VF_EXC_CLASS(St11logic_error)
VF_EXC_CLASS(St16invalid_argument)
VF_EXC_CLASS(St12length_error)
VF_EXC_CLASS(St14overflow_error)
static uint8_t vf_what_text[] = "exception";
void *X__ZNKSt13runtime_error4whatEv(void *self) { (void)self; return vf_what_text; }
void *X__ZNKSt11logic_error4whatEv(void *self) { (void)self; return vf_what_text; }
void *X__ZNKSt9exception4whatEv(void *self) { (void)self; return vf_what_text; }
void X__ZNSt7__cxx1112basic_stringIcSt11char_traitsIcESaIcEED2Ev(void *s) { str_dispose(s); }
void X__ZNSt7__cxx1112basic_stringIcSt11char_traitsIcESaIcEED1Ev(void *s) { str_dispose(s); }

/* ---------------------------------------------------------------- red-black tree support of std::map / std::set
 * (libstdc++ src/c++98/tree.cc re-expressed in C over the node layout
 *  { int color; node *parent, *left, *right; }); validated differentially each run. */
struct vf_rb { uint32_t color; struct vf_rb *parent, *left, *right; };   /* color: 0 red, 1 black */

static struct vf_rb *vf_rb_increment(struct vf_rb *x)
{
  if (x->right != 0) {
    x = x->right;
    while (x->left != 0) x = x->left;
  } else {
    struct vf_rb *y = x->parent;
    while (x == y->right) { x = y; y = y->parent; }
    if (x->right != y) x = y;
  }
  return x;
}
static struct vf_rb *vf_rb_decrement(struct vf_rb *x)
{
  if (x->color == 0 && x->parent->parent == x) x = x->right;
  else if (x->left != 0) {
    struct vf_rb *y = x->left;
    while (y->right != 0) y = y->right;
    x = y;
  } else {
    struct vf_rb *y = x->parent;
    while (x == y->left) { x = y; y = y->parent; }
    x = y;
  }
  return x;
}
void *X__ZSt18_Rb_tree_incrementPSt18_Rb_tree_node_base(void *x) { return vf_rb_increment((struct vf_rb *)x); }
void *X__ZSt18_Rb_tree_incrementPKSt18_Rb_tree_node_base(void *x) { return vf_rb_increment((struct vf_rb *)x); }
void *X__ZSt18_Rb_tree_decrementPSt18_Rb_tree_node_base(void *x) { return vf_rb_decrement((struct vf_rb *)x); }
void *X__ZSt18_Rb_tree_decrementPKSt18_Rb_tree_node_base(void *x) { return vf_rb_decrement((struct vf_rb *)x); }

static void vf_rb_rotate_left(struct vf_rb *x, struct vf_rb **root)
{
  struct vf_rb *y = x->right;
  x->right = y->left;
  if (y->left != 0) y->left->parent = x;
  y->parent = x->parent;
  if (x == *root) *root = y;
  else if (x == x->parent->left) x->parent->left = y;
  else x->parent->right = y;
  y->left = x;
  x->parent = y;
}
static void vf_rb_rotate_right(struct vf_rb *x, struct vf_rb **root)
{
  struct vf_rb *y = x->left;
  x->left = y->right;
  if (y->right != 0) y->right->parent = x;
  y->parent = x->parent;
  if (x == *root) *root = y;
  else if (x == x->parent->right) x->parent->right = y;
  else x->parent->left = y;
  y->right = x;
  x->parent = y;
}
void X__ZSt29_Rb_tree_insert_and_rebalancebPSt18_Rb_tree_node_baseS0_RS_(uint8_t insert_left, void *xv, void *pv, void *hv)
{
  struct vf_rb *x = (struct vf_rb *)xv, *p = (struct vf_rb *)pv, *header = (struct vf_rb *)hv;
  struct vf_rb **root = &header->parent;
  x->parent = p; x->left = 0; x->right = 0; x->color = 0;
  if (insert_left) {
    p->left = x;
    if (p == header) { header->parent = x; header->right = x; }
    else if (p == header->left) header->left = x;
  } else {
    p->right = x;
    if (p == header->right) header->right = x;
  }
  while (x != *root && x->parent->color == 0) {
    struct vf_rb *xpp = x->parent->parent;
    if (x->parent == xpp->left) {
      struct vf_rb *y = xpp->right;
      if (y && y->color == 0) { x->parent->color = 1; y->color = 1; xpp->color = 0; x = xpp; }
      else {
        if (x == x->parent->right) { x = x->parent; vf_rb_rotate_left(x, root); }
        x->parent->color = 1; xpp->color = 0; vf_rb_rotate_right(xpp, root);
      }
    } else {
      struct vf_rb *y = xpp->left;
      if (y && y->color == 0) { x->parent->color = 1; y->color = 1; xpp->color = 0; x = xpp; }
      else {
        if (x == x->parent->left) { x = x->parent; vf_rb_rotate_right(x, root); }
        x->parent->color = 1; xpp->color = 0; vf_rb_rotate_left(xpp, root);
      }
    }
  }
  (*root)->color = 1;
}

/* ---------------------------------------------------------------- misc libc used by the dfs sources */
static int32_t vf_errno_cell;
void *X___errno_location(void) { return &vf_errno_cell; }
uint64_t X_strtol(void *nptr, void *endptr, uint32_t base)
{
  /* base-10 model: optional spaces, optional sign, digits; saturation sets errno=ERANGE(34) */
  const uint8_t *s = (const uint8_t *)nptr;
  uint64_t i = 0; int neg = 0, any = 0; uint64_t v = 0; int over = 0;
  (void)base;
  while (s[i] == ' ' || (s[i] >= 9 && s[i] <= 13)) i++;
  if (s[i] == '+' || s[i] == '-') { neg = s[i] == '-'; i++; }
  while (s[i] >= '0' && s[i] <= '9') {
    if (v > (0x7fffffffffffffffull - (uint64_t)(s[i] - '0')) / 10) over = 1; else v = v * 10 + (uint64_t)(s[i] - '0');
    i++; any = 1;
  }
  if (endptr) *(const uint8_t **)endptr = any ? s + i : s;
  if (over) { vf_errno_cell = 34; return neg ? 0x8000000000000000ull : 0x7fffffffffffffffull; }
  return neg ? (uint64_t)(0 - v) : v;
}
void *X_strerror(uint32_t e) { (void)e; return vf_what_text; }

/* ---------------------------------------------------------------- an in-memory stdio file (the decompressed temporary file of img_gzfile.cc)
 * The harness sets size/contents through the X_vfz_* helpers; fseek/fread follow ISO C on it. */
#define VFZ_MAX 48
static uint8_t vfz_data[VFZ_MAX];
static uint64_t vfz_size, vfz_pos;
static uint32_t vfz_eof, vfz_err;
static uint8_t vfz_handle;
void X_vfz_setup(uint64_t size) { vfz_size = size; vfz_pos = 0; vfz_eof = 0; vfz_err = 0; }
void X_vfz_poke(uint64_t i, uint8_t v) { if (i < VFZ_MAX) vfz_data[i] = v; }
uint8_t X_vfz_peek(uint64_t i) { return i < VFZ_MAX ? vfz_data[i] : 0; }
void *X_vfz_file(void) { return &vfz_handle; }
uint32_t X_fseek(void *f, uint64_t off, uint32_t whence)
{
  (void)f;
  if (whence != 0) return (uint32_t)-1;
  if ((int64_t)off < 0) { vf_errno_cell = 22; return (uint32_t)-1; }
  vfz_pos = off; vfz_eof = 0;           /* seeking beyond the end is allowed */
  return 0;
}
uint64_t X_fread(void *ptr, uint64_t size, uint64_t n, void *f)
{
  (void)f;
  uint8_t *dst = (uint8_t *)ptr;
  uint64_t want = size * n, avail = vfz_pos < vfz_size ? vfz_size - vfz_pos : 0;
  uint64_t give = want < avail ? want : avail;
  for (uint64_t i = 0; i < VFZ_MAX; ++i) if (i < give) dst[i] = vfz_data[(vfz_pos + i) % VFZ_MAX];
  vfz_pos += give;
  if (give < want) vfz_eof = 1;
  return size ? give / size : 0;
}
uint32_t X_ferror(void *f) { (void)f; return vfz_err; }
void X_free(void *p) { free(p); }
void *X_strdup(void *s) { uint64_t n = X_strlen(s) + 1; void *p = vf_alloc(n); memcpy(p, s, (size_t)n); return p; }
void X__ZNSt7__cxx1112basic_stringIcSt11char_traitsIcESaIcEE12_M_constructEmc(void *s, uint64_t n, uint8_t c)
{
  if (n > 15) {
    uint64_t cap = n;
    uint8_t *r = (uint8_t *)X__ZNSt7__cxx1112basic_stringIcSt11char_traitsIcESaIcEE9_M_createERmm(s, &cap, 0);
    if (vf_eh_pending) return;
    STR_P(s) = r; STR_CAP(s) = cap;
  }
  if (n) SMEMSET(STR_P(s), c, (size_t)n);
  str_set_length(s, n);
}
void *X__ZNSt7__cxx1112basic_stringIcSt11char_traitsIcESaIcEEaSEOS4_(void *s, void *o)
{
  if (s == o) return s;
  if (str_is_local(o)) {
    uint64_t n = STR_LEN(o);
    if (n) SMEMCPY(STR_P(s), STR_P(o), (size_t)n);      /* capacity of s is at least 15 >= n */
    str_set_length(s, n);
  } else {
    uint8_t *old = str_is_local(s) ? 0 : STR_P(s);
    uint64_t oldcap = old ? STR_CAP(s) : 0;
    STR_P(s) = STR_P(o); STR_LEN(s) = STR_LEN(o); STR_CAP(s) = STR_CAP(o);
    if (old) { STR_P(o) = old; STR_CAP(o) = oldcap; } else STR_P(o) = STR_LOCAL(o);
  }
  str_set_length(o, 0);
  return s;
}
void *X__ZNSt7__cxx1112basic_stringIcSt11char_traitsIcESaIcEEaSEPKc(void *s, void *c)
{
  return X__ZNSt7__cxx1112basic_stringIcSt11char_traitsIcESaIcEE10_M_replaceEmmPKcm(s, 0, STR_LEN(s), c, X_strlen(c));
}
uint64_t X_div(uint32_t a, uint32_t b)
{
  int32_t q = (int32_t)a / (int32_t)b, r = (int32_t)a % (int32_t)b;
  return (uint64_t)(uint32_t)q | ((uint64_t)(uint32_t)r << 32);
}

/* A cheaper, behaviourally equivalent model of std::vector<unsigned int>::_M_realloc_insert(pos = end, value), used where
 * a harness CUTS the real one: always grows to a fixed capacity of 16 elements (capacity is not observable by the
 * client code), so the heap shape stays concrete.  More than 16 elements is reported. */
void X__ZNSt6vectorIjSaIjEE17_M_realloc_insertIJRKjEEEvN9__gnu_cxx17__normal_iteratorIPjS1_EEDpOT_(void *self, void *pos, void *val)
{
  uint32_t **v = (uint32_t **)self;                 /* { begin, end, end_of_storage } */
  uint64_t n = ((uint64_t)(uintptr_t)v[1] - (uint64_t)(uintptr_t)v[0]) / 4;
  VF_ASSERT((uint32_t *)pos == v[1], "vector model: insertion at the end only");
  VF_ASSERT(n < 16, "vector model: at most 16 elements");
  uint32_t *nb = (uint32_t *)vf_alloc(16 * sizeof(uint32_t));
#define VF_CP(i) if ((i) < n) nb[i] = v[0][i];
  VF_CP(0) VF_CP(1) VF_CP(2) VF_CP(3) VF_CP(4) VF_CP(5) VF_CP(6) VF_CP(7)
  VF_CP(8) VF_CP(9) VF_CP(10) VF_CP(11) VF_CP(12) VF_CP(13) VF_CP(14) VF_CP(15)
#undef VF_CP
  nb[n] = *(uint32_t *)val;
  if (v[0]) free(v[0]);
  v[0] = nb; v[1] = nb + n + 1; v[2] = nb + 16;
}

/* ---------------------------------------------------------------- POSIX regcomp/regexec (REG_EXTENDED), restricted model
 * glibc's regex engine is outside the code under test.  dfs uses it with exactly three kinds of pattern:
 *   (1) the two fixed canonicalisation patterns of dfs/afsp.cc (qualify / extend_wildcard), recognised literally;
 *   (2) the ERE that convert_wildcard_into_extended_regex GENERATES: '^' elem* '$' with elem = literal, '\' literal,
 *       bracket expression, each optionally followed by '*'.
 * The model parses (2) by the POSIX rules for bracket expressions (leading '^' negates, a leading ']' is literal,
 * '\' is an ordinary character inside brackets, 'a-b' is a range, an unterminated '[' is REG_EBRACK) and matches with a
 * position-set automaton.  Any other construct makes regcomp ASSERT "unsupported", so nothing is silently mis-modelled. */
#define VRX_MAXE 24
#define VRX_MAXS 24
struct vf_regex {
  uint8_t kind;                         /* 1 = qualify pattern, 2 = extend_wildcard pattern, 3 = element list */
  uint8_t n;                            /* elements */
  uint8_t neg[VRX_MAXE], star[VRX_MAXE], any[VRX_MAXE], cnt[VRX_MAXE];
  uint8_t lo[VRX_MAXE][3], hi[VRX_MAXE][3];   /* up to three members, each a range lo..hi */
};
static const char vrx_pat_qualify[] = "^(:[0-9]+[A-H]?[.])?([^.:#*][.])?([^.:#*]+)$";
static const char vrx_pat_wild[]    = "^(:[0-9]+[A-H]?[.])?([^.][.])?([^.]+)$";
static int vrx_streq(const uint8_t *a, const char *b)
{
  for (unsigned i = 0; i < 64; ++i) { if (a[i] != (uint8_t)b[i]) return 0; if (a[i] == 0) return 1; }
  return 0;
}
uint32_t X_regcomp(void *preg, void *pattern, uint32_t cflags)
{
  const uint8_t *p = (const uint8_t *)pattern;
  struct vf_regex *r = (struct vf_regex *)vf_alloc(sizeof(struct vf_regex));
  (void)cflags;
  *(struct vf_regex **)preg = r;
  r->n = 0;
  if (vrx_streq(p, vrx_pat_qualify)) { r->kind = 1; return 0; }
  if (vrx_streq(p, vrx_pat_wild)) { r->kind = 2; return 0; }
  r->kind = 3;
  unsigned i = 0;
  VF_ASSERT(p[0] == '^', "regex model: unsupported pattern (no leading ^)");
  i = 1;
  for (unsigned guard = 0; guard < VRX_MAXE + 1; ++guard)
    {
      uint8_t c = p[i];
      if (c == 0) { VF_ASSERT(0, "regex model: unsupported pattern (no trailing $)"); return 0; }
      if (c == '$' && p[i + 1] == 0) return 0;
      VF_ASSERT(r->n < VRX_MAXE, "regex model: too many elements");
      if (r->n >= VRX_MAXE) return 0;
      unsigned e = r->n;
      r->neg[e] = 0; r->star[e] = 0; r->any[e] = 0; r->cnt[e] = 0;
      if (c == '[')
        {
          ++i;
          if (p[i] == '^') { r->neg[e] = 1; ++i; }
          unsigned first = 1;
          for (unsigned g2 = 0; g2 < 5; ++g2)
            {
              uint8_t m = p[i];
              if (m == 0) return 7;                                   /* REG_EBRACK: unterminated bracket expression */
              if (m == ']' && !first) break;
              VF_ASSERT(!(m == '[' && (p[i + 1] == '.' || p[i + 1] == ':' || p[i + 1] == '=')), "regex model: character classes are not modelled");
              VF_ASSERT(r->cnt[e] < 3, "regex model: more than three members in a bracket expression");
              if (r->cnt[e] >= 3) return 0;
              uint8_t k = r->cnt[e];
              r->lo[e][k] = m; r->hi[e][k] = m; ++i;
              if (p[i] == '-' && p[i + 1] != ']' && p[i + 1] != 0) { r->hi[e][k] = p[i + 1]; i += 2; if (r->hi[e][k] < r->lo[e][k]) return 11; /* REG_ERANGE */ }
              r->cnt[e] = (uint8_t)(k + 1);
              first = 0;
            }
          if (p[i] != ']') { VF_ASSERT(0, "regex model: bracket expression too long"); return 0; }
          ++i;
        }
      else if (c == '\\')
        {
          if (p[i + 1] == 0) return 5;                                /* REG_EESCAPE */
          r->cnt[e] = 1; r->lo[e][0] = r->hi[e][0] = p[i + 1]; i += 2;
        }
      else if (c == '.') { r->any[e] = 1; ++i; }
      else
        {
          VF_ASSERT(c != '*' && c != '+' && c != '?' && c != '(' && c != ')' && c != '|' && c != '{' && c != '^' && c != '$',
                    "regex model: unsupported ERE operator outside a bracket expression");
          r->cnt[e] = 1; r->lo[e][0] = r->hi[e][0] = c; ++i;
        }
      if (p[i] == '*') { r->star[e] = 1; ++i; }
      r->n = (uint8_t)(e + 1);
    }
  VF_ASSERT(0, "regex model: pattern too long");
  return 0;
}
static int vrx_elem(const struct vf_regex *r, unsigned e, uint8_t c)
{
  if (r->any[e]) return 1;
  int in = 0;
  for (unsigned k = 0; k < 3; ++k) if (k < r->cnt[e] && c >= r->lo[e][k] && c <= r->hi[e][k]) in = 1;
  return r->neg[e] ? !in : in;
}
static uint32_t vrx_close(const struct vf_regex *r, uint32_t s)
{
  for (unsigned e = 0; e < VRX_MAXE; ++e) if (e < r->n && ((s >> e) & 1) && r->star[e]) s |= 1u << (e + 1);
  return s;
}
/* the fixed patterns: ^(:[0-9]+[A-H]?[.])?(D[.])?(N+)$ with D, N character sets; POSIX leftmost-longest: the earlier group is preferred */
static int vrx_fixed_try(const uint8_t *s, unsigned len, int strict, int with_drive, int with_dir, int32_t *m)
{
  unsigned i = 0;
  m[2] = m[3] = m[4] = m[5] = -1;
  if (with_drive)
    {
      if (s[i] != ':') return 0;
      unsigned j = i + 1, digits = 0;
      for (unsigned g = 0; g < VRX_MAXS; ++g) { if (j < len && s[j] >= '0' && s[j] <= '9') { ++j; ++digits; } else break; }
      if (!digits) return 0;
      if (j < len && s[j] >= 'A' && s[j] <= 'H' && j + 1 < len && s[j + 1] == '.') ++j;
      if (!(j < len && s[j] == '.')) return 0;
      m[2] = (int32_t)i; m[3] = (int32_t)(j + 1); i = j + 1;
    }
  if (with_dir)
    {
      if (!(i + 1 < len)) return 0;
      uint8_t d = s[i];
      if (d == '.' || (strict && (d == ':' || d == '#' || d == '*'))) return 0;
      if (s[i + 1] != '.') return 0;
      m[4] = (int32_t)i; m[5] = (int32_t)(i + 2); i += 2;
    }
  if (i >= len) return 0;
  for (unsigned g = 0; g < VRX_MAXS; ++g)
    if (i + g < len) { uint8_t c = s[i + g]; if (c == '.' || (strict && (c == ':' || c == '#' || c == '*'))) return 0; }
  m[6] = (int32_t)i; m[7] = (int32_t)len;
  m[0] = 0; m[1] = (int32_t)len;
  return 1;
}
uint32_t X_regexec(void *preg, void *str, uint64_t nmatch, void *pmatch, uint32_t eflags)
{
  const struct vf_regex *r = *(struct vf_regex **)preg;
  const uint8_t *s = (const uint8_t *)str;
  int32_t *out = (int32_t *)pmatch;
  (void)eflags;
  unsigned len = 0;
  for (unsigned g = 0; g < VRX_MAXS + 1; ++g) { if (s[g] == 0) break; ++len; }
  VF_ASSERT(len <= VRX_MAXS, "regex model: subject string longer than VRX_MAXS");
  if (r->kind == 1 || r->kind == 2)
    {
      int32_t m[8]; int ok = 0;
      /* preference order: drive+dir, drive, dir, neither (a ':'-prefixed drive can never also parse as dir or name, see DESIGN) */
      if (!ok) ok = vrx_fixed_try(s, len, r->kind == 1, 1, 1, m);
      if (!ok) ok = vrx_fixed_try(s, len, r->kind == 1, 1, 0, m);
      if (!ok) ok = vrx_fixed_try(s, len, r->kind == 1, 0, 1, m);
      if (!ok) ok = vrx_fixed_try(s, len, r->kind == 1, 0, 0, m);
      if (!ok) return 1;                                              /* REG_NOMATCH */
      for (unsigned k = 0; k < 4; ++k) if (k < nmatch) { out[2 * k] = m[2 * k]; out[2 * k + 1] = m[2 * k + 1]; }
      for (unsigned k = 4; k < 8; ++k) if (k < nmatch) { out[2 * k] = -1; out[2 * k + 1] = -1; }
      return 0;
    }
  uint32_t set = vrx_close(r, 1u);
  for (unsigned pos = 0; pos < VRX_MAXS; ++pos)
    if (pos < len)
      {
        uint32_t next = 0; uint8_t c = s[pos];
        for (unsigned e = 0; e < VRX_MAXE; ++e)
          if (e < r->n && ((set >> e) & 1) && vrx_elem(r, e, c))
            next |= r->star[e] ? (1u << e) : (1u << (e + 1));
        set = vrx_close(r, next);
      }
  if (!((set >> r->n) & 1)) return 1;
  if (nmatch > 0) { out[0] = 0; out[1] = (int32_t)len; }
  for (unsigned k = 1; k < 8; ++k) if (k < nmatch) { out[2 * k] = -1; out[2 * k + 1] = -1; }
  return 0;
}
void X_regfree(void *preg) { free(*(void **)preg); }
uint64_t X_regerror(uint32_t code, void *preg, void *buf, uint64_t size)
{
  static const char msg[] = "regex error";
  (void)code; (void)preg;
  uint8_t *b = (uint8_t *)buf;
  for (unsigned i = 0; i < sizeof msg; ++i) if (i < size) b[i] = (uint8_t)msg[i];
  if (size && size < sizeof msg) b[size - 1] = 0;
  return sizeof msg;
}

/* std::vector<char> built from an initializer list and then grown by push_back, used where a harness CUTS the real
 * members: the initial storage already has a fixed capacity of 96 bytes (capacity is unobservable), so the vector never
 * reallocates while its element count is symbolic; a 97th element is reported (assertion), never dropped. */
void X__ZNSt6vectorIcSaIcEE19_M_range_initializeIPKcEEvT_S5_St20forward_iterator_tag(void *self, void *first, void *last)
{
  uint8_t **v = (uint8_t **)self;                   /* { begin, end, end_of_storage } */
  uint64_t n = (uint64_t)((uint8_t *)last - (uint8_t *)first);
  VF_ASSERT(n <= 96, "vector model: at most 96 elements");
  uint8_t *nb = (uint8_t *)vf_alloc(96);
  for (uint64_t i = 0; i < 96; ++i) { if (i >= n) break; nb[i] = ((uint8_t *)first)[i]; }
  v[0] = nb; v[1] = nb + n; v[2] = nb + 96;
}
void X__ZNSt6vectorIcSaIcEE17_M_realloc_insertIJRKcEEEvN9__gnu_cxx17__normal_iteratorIPcS1_EEDpOT_(void *self, void *pos, void *val)
{ (void)self; (void)pos; (void)val; VF_ASSERT(0, "vector model: more than 96 elements"); VF_STOP(); }
void X__ZNSt6vectorIcSaIcEE17_M_realloc_insertIJcEEEvN9__gnu_cxx17__normal_iteratorIPcS1_EEDpOT_(void *self, void *pos, void *val)
{ (void)self; (void)pos; (void)val; VF_ASSERT(0, "vector model: more than 96 elements"); VF_STOP(); }
