/* Framing query: the REAL decode_big_endian_program / decode_little_endian_program
 * from /repo/basic/lines.c, with calls to the static decode_line redirected
 * (goto-instrument --replace-calls decode_line:decode_line_stub) to a
 * recording stub, against a reference framing written from doc/bbcbasic.5.
 *
 * -DBE or -DLE selects the decoder; -DNIN=<N> bytes per file; -DNFILES=1|2
 * (2 = two files decoded one after the other in the same execution, sharing
 * the decoder's static line buffer: the cross-file history of C09);
 * -DMODE_FRAME (C03/C09) or -DMODE_SAFE (C08).
 */
#ifndef NIN
#define NIN 16
#endif
#ifndef NFILES
#define NFILES 1
#endif
#define MAXEV 2
#define MAXCALLS (NFILES * (NIN / 3 + 1))
#include "env.h"
static unsigned vf_token_code(const char *s) { (void)s; return 0; }
const char invalid[] = "__invalid__";
const char line_num[] = "__line_num__";
const char fastvar[] = "__fastvar__";
const char pdp_c8[] = "__pdp__";
#include REPO_LINES_C
void please_submit_bug_report(void) { diag_emitted = 1; }

/* parallel arrays (arrays of structs are ~10x more expensive for CBMC, measured) */
static unsigned char C_hi[MAXCALLS], C_lo[MAXCALLS], C_len[MAXCALLS];
static unsigned char C_bytes[MAXCALLS][NIN];
static int C_indent_in[MAXCALLS], C_indent_out[MAXCALLS], C_listo[MAXCALLS], C_ok[MAXCALLS];
static long C_file_pos[MAXCALLS];
static unsigned ncalls;
static int calls_overflow;
static const struct expansion_map *expected_map;
static int map_mismatch;

/* Replaces the real decode_line in the framing functions.  Reads every byte
   it is given (so an over-long length is a bounds violation here exactly as
   it would be in the real decode_line), records the call, and answers
   nondeterministically. */
bool decode_line_stub(unsigned char line_hi, unsigned char line_lo,
                      unsigned char orig_len, const char *data,
                      long orig_file_pos,
                      const struct expansion_map *m, int *indent, int listo)
{
  unsigned char sink = 0;
  for (unsigned i = 0; i < orig_len; ++i) sink ^= (unsigned char)data[i];
  (void)sink;
  if (m != expected_map) map_mismatch = 1;
  int ok = vf_bool();
  int delta = vf_i32();
  VF_ASSUME(delta >= -4 && delta <= 4);
  if (ncalls < MAXCALLS) {
    unsigned c = ncalls;
    C_hi[c] = line_hi; C_lo[c] = line_lo; C_len[c] = orig_len; C_listo[c] = listo; C_ok[c] = ok;
    C_file_pos[c] = orig_file_pos;
    C_indent_in[c] = *indent;
    for (unsigned i = 0; i < NIN; ++i) C_bytes[c][i] = i < orig_len ? (unsigned char)data[i] : 0;
    *indent += delta;
    C_indent_out[c] = *indent;
  } else calls_overflow = 1;
  ncalls++;
  if (!ok) diag_emitted = 1;      /* contract of the real decode_line, proved by the line queries */
  return ok;
}

#define LINE_OK(j) ((j) >= MAXCALLS || C_ok[(j)])
#include "ref_frame.h"

static struct refframe REF[NFILES];
static const struct expansion_map DUMMY_MAP;

void harness(void)
{
  int listo = vf_i32();
  VF_ASSUME(listo >= 0 && listo <= 7);
  expected_map = &DUMMY_MAP;
  for (int i = 0; i < NFILES; ++i) vf_init_file(i);

  bool ok[NFILES]; unsigned first[NFILES + 1]; int diag[NFILES];
  for (int i = 0; i < NFILES; ++i) {
    first[i] = ncalls;
    diag_emitted = 0;
#ifdef BE
    ok[i] = decode_big_endian_program(&vf_handles[i], "file", &DUMMY_MAP, listo);
#else
    ok[i] = decode_little_endian_program(&vf_handles[i], "file", &DUMMY_MAP, listo);
#endif
    diag[i] = diag_emitted;
  }
  first[NFILES] = ncalls;

  VF_ASSERT(!map_mismatch, "decode_line receives the caller's token map");
  for (int i = 0; i < NFILES; ++i)
    VF_ASSERT(ok[i] || diag[i], "failure is accompanied by a diagnostic");

#ifdef MODE_FRAME
  VF_ASSERT(!calls_overflow, "call log large enough");
  for (int i = 0; i < NFILES; ++i) {
    ref_frame(&REF[i], VF[i].data, VF[i].len, first[i]);
    unsigned made = first[i + 1] - first[i];
    if (REF[i].verdict == R_UNSPEC) continue;
    if (REF[i].verdict == R_ACCEPT) VF_ASSERT(ok[i], "well-formed file is accepted");
    if (REF[i].verdict == R_REJECT) VF_ASSERT(!ok[i], "truncated or ill-framed file is rejected");
    VF_ASSERT(made == REF[i].n, "lines handed to decode_line are exactly the documented lines");
    for (unsigned k = 0; k < MAXCALLS; ++k) {
      if (k < made && k < REF[i].n) {
        unsigned c = first[i] + k;
        VF_ASSERT(C_hi[c] == REF[i].hi[k] && C_lo[c] == REF[i].lo[k], "line number bytes");
        VF_ASSERT(C_len[c] == REF[i].len[k], "line body length");
        VF_ASSERT(C_listo[c] == listo, "listo passed through");
        VF_ASSERT(C_indent_in[c] == (k == 0 ? 0 : C_indent_out[c - 1]),
                  "indentation starts at 0 for each file and is carried from line to line");
        VF_ASSERT(C_file_pos[c] >= 0 && C_file_pos[c] <= NIN, "file position in range");
        for (unsigned b = 0; b < NIN; ++b)
          if (b < REF[i].len[k])
            VF_ASSERT(C_bytes[c][b] == VF[i].data[REF[i].off[k] + b], "line body bytes are this file's bytes");
      }
    }
  }
  if (REF[0].verdict == R_ACCEPT && REF[0].n == 2) VF_WITNESS("accepted two-line file");
  if (REF[0].verdict == R_REJECT && REF[0].n == 1 && C_ok[0]) VF_WITNESS("file truncated after one good line");
#if NFILES > 1
  if (REF[0].verdict == R_REJECT && REF[1].verdict == R_ACCEPT && REF[1].n == 1) VF_WITNESS("bad file then good file");
#endif
#endif
#ifdef MODE_SAFE
  if (ncalls >= 1 && C_len[0] >= NIN - 5) VF_WITNESS("line filling the whole file");
  if (!ok[0]) VF_WITNESS("rejected file");
  if (ok[0] && ncalls >= 1) VF_WITNESS("accepted file with a line");
#endif
}
