/* Native replay runtime: the harness (with the REAL code included) is built
 * with gcc/g++ -DVF_NATIVE and fed the values the solver chose for the
 * symbolic inputs (VF_TRACE[] of the counterexample), one decimal number per
 * line in the file named by $VF_REPLAY.  Uses only raw system calls because
 * the C harnesses replace stdio.
 * exit 0: all assertions held; 1: "ASSERTION FAILED"; 77: inputs do not
 * satisfy the harness assumptions (replay file invalid). */
#include <stdint.h>
#include <stdlib.h>
#include <fcntl.h>
#include <unistd.h>
#include <string.h>

#ifdef __cplusplus
extern "C" {
#endif
static uint64_t vals[65536];
static unsigned nvals, cur;
static int loaded;

static void load(void)
{
  loaded = 1;
  const char *p = getenv("VF_REPLAY");
  if (!p) return;
  int fd = open(p, O_RDONLY);
  if (fd < 0) return;
  static char buf[1 << 20];
  long n = 0, k;
  while ((k = read(fd, buf + n, sizeof buf - 1 - n)) > 0) n += k;
  close(fd);
  buf[n] = 0;
  uint64_t v = 0; int have = 0;
  for (long i = 0; i <= n; ++i) {
    char c = buf[i];
    if (c >= '0' && c <= '9') { v = v * 10 + (uint64_t)(c - '0'); have = 1; }
    else { if (have && nvals < 65536) vals[nvals++] = v; v = 0; have = 0; }
  }
}

uint64_t vf_next(void)
{
  if (!loaded) load();
  if (cur < nvals) return vals[cur++];
  cur++;
  return 0;
}

static void say(const char *a, const char *b)
{
  if (write(2, a, strlen(a)) < 0) _exit(99);
  if (write(2, b, strlen(b)) < 0) _exit(99);
  if (write(2, "\n", 1) < 0) _exit(99);
}

void vf_fail(const char *msg) { say("ASSERTION FAILED: ", msg); _exit(1); }
void vf_bad_assume(const char *what) { say("replay violates assumption: ", what); _exit(77); }

#ifndef VF_NO_MAIN
void harness(void);
#ifdef __cplusplus
}
#endif
int main(void) { harness(); say("replay: ", "all assertions held"); return 0; }
#else
#ifdef __cplusplus
}
#endif
#endif
