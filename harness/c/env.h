/* Environment model for the CBMC harnesses of basic/*.c (pipeline P-C).
 *
 * Input:   up to NFILES symbolic byte arrays behind fake FILE objects.
 * Output:  every stdout primitive appends an event to a log (or compares it
 *          on-line with an expected log); stderr output sets diag_emitted.
 * Faults:  (C11) stdout primitives may fail from a nondeterministic call on.
 *
 * Only the format strings that occur in basic/lines.c are understood by the
 * stdout formatter; any other format sets env_unknown_format, which every
 * harness asserts to be 0 -> a source change that introduces a new stdout
 * format is reported, never silently passed.
 */
#ifndef VF_ENV_H
#define VF_ENV_H
#include <stdio.h>
#include <stdarg.h>
#include <stdbool.h>
#include <stddef.h>
#include <string.h>

#ifndef NIN
#define NIN 16            /* bytes per symbolic input file */
#endif
#ifndef NFILES
#define NFILES 1
#endif
#ifndef MAXEV
#define MAXEV 48
#endif

#include <stdint.h>
/* ---- verification primitives: symbolic under CBMC, replayed natively ---- */
#ifndef VF_MAXTRACE
#define VF_MAXTRACE 256
#endif
#ifdef VF_NATIVE
uint64_t vf_next(void);                    /* next recorded value (harness/c/native_rt.c) */
void vf_fail(const char *msg);             /* prints "ASSERTION FAILED: msg", exits 1 */
void vf_bad_assume(const char *what);      /* replay file does not satisfy an assumption: exit 77 */
#define VF_ASSUME(c) do { if (!(c)) vf_bad_assume(#c); } while (0)
#define VF_ASSERT(c, msg) do { if (!(c)) vf_fail(msg); } while (0)
#define VF_WITNESS(msg) ((void)0)
#define __CPROVER_assert(c, msg) VF_ASSERT(c, msg)
#define __CPROVER_assume(c) VF_ASSUME(c)
static uint64_t vf_rec(uint64_t ignored) { (void)ignored; return vf_next(); }
#define VF_ND(kind) 0
#else
unsigned char nondet_uchar(void);
unsigned nondet_uint(void);
int nondet_int(void);
_Bool nondet_bool(void);
long nondet_long(void);
uint64_t VF_TRACE[VF_MAXTRACE];
unsigned vf_trace_n;
static uint64_t vf_rec(uint64_t v) { if (vf_trace_n < VF_MAXTRACE) VF_TRACE[vf_trace_n] = v; vf_trace_n++; return v; }
#define VF_ASSUME(c) __CPROVER_assume(c)
#define VF_ASSERT(c, msg) __CPROVER_assert(c, msg)
#define VF_WITNESS(msg) __CPROVER_assert(0, "WITNESS " msg)
#define VF_ND(kind) nondet_##kind()
#endif
#ifdef VF_NATIVE
#define __VF_SAME_OBJECT(p, arr) ((const char *)(p) >= (const char *)(arr) && (const char *)(p) < (const char *)(arr) + sizeof(arr))
#else
#define __VF_SAME_OBJECT(p, arr) __CPROVER_same_object((p), (arr))
#endif
/* every symbolic input of a harness is drawn through these, in a fixed order */
static unsigned char vf_u8(void)  { return (unsigned char)vf_rec(VF_ND(uchar)); }
static unsigned vf_u32(void)      { return (unsigned)vf_rec(VF_ND(uint)); }
static int vf_i32(void)           { return (int)vf_rec((uint64_t)(unsigned)VF_ND(int)); }
static long vf_i64(void)          { return (long)vf_rec((uint64_t)VF_ND(long)); }
static int vf_bool(void)          { return (int)(vf_rec(VF_ND(bool)) & 1); }

/* ---------------------------------------------------------------- input */
struct vfile {
  unsigned char data[NIN];
  unsigned len;          /* <= NIN */
  unsigned pos;
  int eof, err;
  int short_reads;       /* fread may return fewer bytes than available */
};
static struct vfile VF[NFILES];
static FILE vf_handles[NFILES + 3];      /* +0..NFILES-1 inputs, then stdin, stdout, stderr */
#define VF_STDOUT (&vf_handles[NFILES + 1])
#define VF_STDERR (&vf_handles[NFILES + 2])
FILE *stdin = &vf_handles[NFILES];
FILE *stdout = &vf_handles[NFILES + 1];
FILE *stderr = &vf_handles[NFILES + 2];
static int vf_stdin_index = 0;           /* which VF[] backs stdin */

static struct vfile *vf_of(FILE *f)
{
  if (f == stdin) return &VF[vf_stdin_index];
  __CPROVER_assert(f >= &vf_handles[0] && f < &vf_handles[NFILES], "read from a FILE that is an input");
  return &VF[f - &vf_handles[0]];
}

static void vf_init_file(int i)
{
  unsigned n = vf_u32();
  VF_ASSUME(n <= NIN);
  VF[i].len = n;
  VF[i].pos = 0; VF[i].eof = 0; VF[i].err = 0;
  for (unsigned k = 0; k < NIN; ++k) VF[i].data[k] = vf_u8();
}

int fgetc(FILE *f)
{
  struct vfile *v = vf_of(f);
  if (v->pos >= v->len) { v->eof = 1; return EOF; }
  return v->data[v->pos++];
}
int getc(FILE *f) { return fgetc(f); }

size_t fread(void *ptr, size_t size, size_t n, FILE *f)
{
  struct vfile *v = vf_of(f);
  unsigned char *dst = (unsigned char *)ptr;
  __CPROVER_assert(size == 1, "fread element size 1");
  size_t avail = v->len - v->pos;
  size_t want = n < avail ? n : avail;
  for (size_t k = 0; k < want; ++k) dst[k] = v->data[v->pos + k];
  v->pos += (unsigned)want;
  if (want < n) v->eof = 1;
  return want;
}
long ftell(FILE *f) { return (long)vf_of(f)->pos; }
static int out_error_indicator;      /* C11: ferror(stdout) model */
int ferror(FILE *f) { if (f == stdout) return out_error_indicator; if (f == stderr) return 0; return vf_of(f)->err; }
void clearerr(FILE *f) { struct vfile *v = vf_of(f); v->eof = 0; v->err = 0; }

/* --------------------------------------------------------------- output */
enum evkind { EV_NUM5 = 1, EV_PAD5, EV_SPACE, EV_INDENT, EV_TOKEN, EV_LITERAL, EV_TARGET, EV_NEWLINE,
              EV_OTHER };
/* NB: parallel arrays, not an array of structs: CBMC's encoding of a symbolic-index
   write into an array of structs with pointer members is ~10x larger (measured). */

static int diag_emitted;
static int env_unknown_format;
static int out_lost;                 /* C11: some stdout primitive reported failure */
static int out_fail_armed;           /* C11: device refuses writes from now on */
static int out_fail_enabled;         /* C11 harness turns this on */

static unsigned char LOGK[MAXEV];
static unsigned LOGV[MAXEV];
/* TOKEN events carry an integer code computed by the harness (offset of the string in the
   generated token pool, or a content code) -- no pointer arrays (cost, see DESIGN 3). */
static unsigned vf_token_code(const char *s);
static unsigned nlog;
static int log_overflow;

static void emit(unsigned char kind, const char *ptr, unsigned val)
{
  (void)ptr; if (nlog < MAXEV) { LOGK[nlog] = kind; LOGV[nlog] = val; nlog++; }
  else log_overflow = 1;
}

/* returns 1 if this stdout call must report failure */
static int out_fails(void)
{
  if (!out_fail_enabled) return 0;
  if (!out_fail_armed && vf_bool()) out_fail_armed = 1;
  if (out_fail_armed) { out_lost = 1; out_error_indicator = 1; return 1; }
  return 0;
}

static int vf_streq(const char *a, const char *b)
{
  for (unsigned i = 0; i < 64; ++i) { if (a[i] != b[i]) return 0; if (!a[i]) return 1; }
  return 0;
}

static int stdout_vformat(const char *fmt, va_list ap)
{
  if (out_fails()) return -1;
  if (vf_streq(fmt, "%5u")) { unsigned n = va_arg(ap, unsigned); emit(EV_NUM5, 0, n); return 5; }
  if (vf_streq(fmt, "%u"))  { unsigned n = va_arg(ap, unsigned); emit(EV_TARGET, 0, n); return 1; }
  if (vf_streq(fmt, "%5s")) { const char *s = va_arg(ap, const char *);
                              if (s[0] != 0) env_unknown_format = 1; emit(EV_PAD5, 0, 0); return 5; }
  if (vf_streq(fmt, "%*s")) { int w = va_arg(ap, int); const char *s = va_arg(ap, const char *);
                              if (s[0] != 0) env_unknown_format = 1; emit(EV_INDENT, 0, (unsigned)w); return w; }
#ifndef ENV_ANY_FORMAT
  env_unknown_format = 1;
#endif
  emit(EV_OTHER, fmt, 0);
  return 1;
}

int printf(const char *fmt, ...)
{
  va_list ap; va_start(ap, fmt);
  int r = stdout_vformat(fmt, ap);
  va_end(ap);
  return r;
}

int fprintf(FILE *f, const char *fmt, ...)
{
  if (f == stderr) { diag_emitted = 1; return 1; }
  if (f != stdout) return 1;            /* some other output file (token-map dump) */
  va_list ap; va_start(ap, fmt);
  int r = stdout_vformat(fmt, ap);
  va_end(ap);
  return r;
}

int putchar(int c)
{
  if (out_fails()) return EOF;
  emit(EV_LITERAL, 0, (unsigned)(unsigned char)c);   /* the end-of-line newline is LITERAL('\n') */
  return (unsigned char)c;
}

int fputs(const char *s, FILE *f)
{
  if (f == stderr) { diag_emitted = 1; return 1; }
  if (f != stdout) return 1;
  if (out_fails()) return EOF;
  emit(EV_TOKEN, 0, vf_token_code(s));
  return 1;
}
int fputc(int c, FILE *f)
{
  if (f == stderr) { diag_emitted = 1; return (unsigned char)c; }
  if (f != stdout) return (unsigned char)c;
  return putchar(c);
}
void perror(const char *s) { (void)s; diag_emitted = 1; }

#endif
