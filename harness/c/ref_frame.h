/* Reference framing written from doc/bbcbasic.5 ("FILE FORMAT", "END OF FILE").
 * Included by h_framing.c (compared with the real decoders) and h_refmono.c
 * (oracle-only monotonicity query).  LINE_OK(j) says whether line j itself was
 * accepted by the line decoder. */
#ifndef VF_REF_FRAME_H
#define VF_REF_FRAME_H
/* ------------------------------------------------------------ reference */
enum { R_ACCEPT = 1, R_REJECT = 0, R_UNSPEC = 2 };
struct refframe { int verdict; unsigned n; unsigned char hi[MAXCALLS], lo[MAXCALLS], len[MAXCALLS]; unsigned off[MAXCALLS]; };

static void ref_frame(struct refframe *r, const unsigned char *in, unsigned n, unsigned first_call)
{
  unsigned pos = 0;
  r->n = 0;
  if (n == 0) { r->verdict = R_UNSPEC; return; }       /* empty file: documents are silent */
  for (unsigned iter = 0; iter < MAXCALLS + 1; ++iter) {
    unsigned char hi, lo, len, body;
#ifdef BE
    if (pos >= n) { r->verdict = R_REJECT; return; }    /* physical EOF without end marker */
    if (in[pos++] != 0x0D) { r->verdict = R_REJECT; return; }
    if (pos >= n) { r->verdict = R_REJECT; return; }
    hi = in[pos++];
    if (hi == 0xFF) { r->verdict = (pos >= n) ? R_ACCEPT : R_UNSPEC; return; }  /* 0D FF */
    if (pos >= n) { r->verdict = R_REJECT; return; }
    lo = in[pos++];
    if (pos >= n) { r->verdict = R_REJECT; return; }
    len = in[pos++];
    if (len < 4) { r->verdict = R_REJECT; return; }
    body = (unsigned char)(len - 4);
    if (n - pos < body) { r->verdict = R_REJECT; return; }
#else
    if (pos >= n) { r->verdict = R_REJECT; return; }
    len = in[pos++];
    if (len == 0) {                                     /* 00 FF FF */
      if (pos >= n) { r->verdict = R_REJECT; return; }
      if (in[pos++] != 0xFF) { r->verdict = R_REJECT; return; }
      if (pos >= n) { r->verdict = R_REJECT; return; }
      if (in[pos++] != 0xFF) { r->verdict = R_REJECT; return; }
      r->verdict = (pos >= n) ? R_ACCEPT : R_UNSPEC;    /* trailing bytes: tolerated with a warning */
      return;
    }
    if (len < 3) { r->verdict = R_REJECT; return; }
    if (pos >= n) { r->verdict = R_REJECT; return; }
    lo = in[pos++];
    if (pos >= n) { r->verdict = R_REJECT; return; }
    hi = in[pos++];
    if (len == 3) { r->verdict = R_UNSPEC; return; }    /* no room for the 0x0D: seen in the wild, tolerated */
    body = (unsigned char)(len - 3);
    if (n - pos < body) { r->verdict = R_REJECT; return; }
    if (in[pos + body - 1] != 0x0D) { r->verdict = R_REJECT; return; }
    body = (unsigned char)(body - 1);
#endif
    if (r->n < MAXCALLS) {
      r->hi[r->n] = hi; r->lo[r->n] = lo; r->len[r->n] = body; r->off[r->n] = pos;
    }
    unsigned j = first_call + r->n;
    r->n++;
#ifdef BE
    pos += body;
#else
    pos += body + 1u;
#endif
    if (!LINE_OK(j)) { r->verdict = R_REJECT; return; }   /* the line itself was rejected */
  }
  r->verdict = R_UNSPEC;   /* more lines than the bound: outside the claim */
}

#endif
