/* Token-table query: the REAL build_mapping(DIALECT_NUM) of /repo/basic/tokens.c
 * executed under CBMC, compared entry by entry (symbolic index) with
 *   (a) the oracle table transcribed from doc/bbcbasic.5 (spec_tables.h), and
 *   (b) the natively precomputed struct the line queries use (map.h),
 * plus CBMC's built-in memory-safety checks on build_mapping itself.
 */
#define NIN 2
#define MAXEV 2
#define ENV_ANY_FORMAT 1
#include "env.h"
static unsigned vf_token_code(const char *s) { (void)s; return 0; }
#include REPO_TOKENS_C           /* defines invalid/line_num/fastvar/pdp_c8 and build_mapping */
#include "map.h"
#include "spec_tables.h"

static struct expansion_map M;

static int streq16(const char *a, const char *b)
{
  for (unsigned i = 0; i < 16; ++i) { if (a[i] != b[i]) return 0; if (!a[i]) return 1; }
  return 0;
}

static int is_sentinel(const char *p) { return p == invalid || p == line_num || p == fastvar || p == pdp_c8; }

static void check_entry(const char *real, const char *gen, unsigned char kind, const char *want, unsigned idx, int is_base)
{
  VF_ASSERT(real != NULL, "every table entry is initialised");
  /* (b) precomputed struct == real struct */
  if (is_sentinel(real)) VF_ASSERT(gen == real, "precomputed map keeps sentinel identity");
  else { VF_ASSERT(!is_sentinel(gen), "precomputed map keeps sentinel identity"); VF_ASSERT(streq16(real, gen), "precomputed map has the same strings"); }
  /* (a) real struct == documentation */
  switch (kind) {
  case K_STR:     VF_ASSERT(!is_sentinel(real) && streq16(real, want), "keyword is the documented one"); break;
  case K_SELF:    VF_ASSERT(!is_sentinel(real) && (unsigned char)real[0] == idx && real[1] == 0, "byte represents itself"); break;
  case K_INVALID: VF_ASSERT(real == invalid, "undocumented byte is marked invalid"); break;
  case K_LINENUM: VF_ASSERT(real == line_num, "0x8D introduces a line number"); break;
  case K_FASTVAR: VF_ASSERT(real == fastvar, "Windows fast-variable bytes are flagged"); break;
  case K_PDP:     VF_ASSERT(real == pdp_c8, "PDP11 0xC8 rule selected"); break;
  case K_EXT6: case K_EXT7: case K_EXT8:
    VF_ASSERT(is_base && real[0] == '_' && !is_sentinel(real), "extension introducer handled by the extension maps"); break;
  default: break;  /* K_UNSPEC: no claim */
  }
}

void harness(void)
{
  bool ok = build_mapping(DIALECT_NUM, &M);
  VF_ASSERT(ok, "build_mapping succeeds for a valid dialect");
  /* The table has no symbolic input besides the index; a symbolic index costs
     40 M clauses (measured), so the 256 indices are unrolled by symex instead. */
  for (unsigned i = 0; i < 256; ++i) {
    check_entry(M.base[i], GMAP.base[i], SPEC_KIND_base[i], SPEC_STR_base[i], i, 1);
    check_entry(M.c6[i], GMAP.c6[i], SPEC_KIND_c6[i], SPEC_STR_c6[i], i, 0);
    check_entry(M.c7[i], GMAP.c7[i], SPEC_KIND_c7[i], SPEC_STR_c7[i], i, 0);
    check_entry(M.c8[i], GMAP.c8[i], SPEC_KIND_c8[i], SPEC_STR_c8[i], i, 0);
  }
  VF_WITNESS("all 4 x 256 entries compared");
}
