/* Reference ("oracle") decoder written from doc/bbcbasic.5 and
 * doc/bbcbasic_to_text.1 -- independent of basic/lines.c.  It produces the
 * expected event list for one line and the expected framing of a file.
 *
 * Verdicts: R_ACCEPT  the documents define the listing (events valid)
 *           R_REJECT  the input is ill-formed for one of the reasons listed
 *                     in property C09 (tool must fail with a diagnostic)
 *           R_UNSPEC  the documents are silent/contradictory: no claim
 */
#ifndef VF_REF_H
#define VF_REF_H
#include "env.h"
#include "spec_tables.h"      /* generated per dialect from spec/tokens.json */

enum { R_ACCEPT = 1, R_REJECT = 0, R_UNSPEC = 2 };
enum { SP_QUIT = 0xFFF1, SP_LOAD = 0xFFF2 };   /* PDP11 0xC8 rule: compared by content; other TOKEN values are offsets into genpool */

struct refline {
  int verdict;
  int indent_out;
  unsigned n;
  unsigned char evk[MAXEV]; unsigned evv[MAXEV];
  int overflow;
  int loop_byte_hidden;   /* a FOR/NEXT/REPEAT/UNTIL byte value occurs inside a string or operand */
};

static void ref_emit(struct refline *r, unsigned char kind, const char *ptr, unsigned val)
{
  (void)ptr; if (r->n < MAXEV) { r->evk[r->n] = kind; r->evv[r->n] = val; r->n++; }
  else r->overflow = 1;
}

static int is_loop_byte(unsigned char b) { return b == 0xED || b == 0xFD || b == 0xE3 || b == 0xF5; }

/* doc/bbcbasic.5 "LINE NUMBERS" */
static unsigned ref_target(unsigned char b1, unsigned char b2, unsigned char b3)
{
  return (((b3 ^ (b1 << 4)) & 0xFF) << 8) | (b2 ^ ((b1 << 2) & 0xC0));
}

static int canonical_target(unsigned char b1, unsigned char b2, unsigned char b3)
{
  return (b2 & 0xC0) == 0x40 && (b3 & 0xC0) == 0x40 && ((b1 ^ 0x54) & ~0x3C) == 0;
}

/* First pass: classify every byte position of the line.
   cls[i]: 0 token/plain outside string, 1 inside string, 2 operand of 0x8D / second byte of extension.
   Returns verdict, fills counts of loop tokens that are really tokens. */
static void ref_line(struct refline *r, unsigned char hi, unsigned char lo, unsigned char len,
                     const unsigned char *data, int indent_in, int listo)
{
  unsigned n_next = 0, n_until = 0, n_for = 0, n_repeat = 0;
  int verdict = R_ACCEPT;
  r->n = 0; r->overflow = 0; r->loop_byte_hidden = 0;

  /* pass 1: count loop tokens outside strings/operands, decide verdict */
  {
    int in_string = 0;
    unsigned p = 0;
    while (p < len) {
      unsigned char b = data[p++];
      if (b == 0) { verdict = R_REJECT; break; }
      if (in_string) { if (is_loop_byte(b)) r->loop_byte_hidden = 1; if (b == '"') in_string = 0; continue; }
      unsigned char k = SPEC_KIND_base[b];
      if (k == K_INVALID || k == K_FASTVAR) { verdict = R_REJECT; break; }
      if (k == K_UNSPEC) { verdict = R_UNSPEC; break; }
      if (k == K_LINENUM) {
        if (len - p < 3) { verdict = R_REJECT; break; }
        /* Every target 0..65535 has exactly one encoding a tokeniser produces:
           b2,b3 in 0x40..0x7F and (b1^0x54) using only bits 0x3C.  Other
           operand bytes are not a well-formed program: no claim. */
        if (!canonical_target(data[p], data[p+1], data[p+2])) { verdict = R_UNSPEC; break; }
        p += 3; continue;
      }
      if (k == K_EXT6 || k == K_EXT7 || k == K_EXT8) {
        if (len - p < 1) { verdict = R_REJECT; break; }
        unsigned char b2 = data[p++];
        unsigned char k2 = k == K_EXT6 ? SPEC_KIND_c6[b2] : k == K_EXT7 ? SPEC_KIND_c7[b2] : SPEC_KIND_c8[b2];
        if (is_loop_byte(b2)) r->loop_byte_hidden = 1;
        if (k2 == K_UNSPEC) { verdict = R_UNSPEC; break; }
        if (k2 != K_STR) { verdict = R_REJECT; break; }
        continue;
      }
      if (k == K_PDP) {
        if (len - p < 1) { verdict = R_REJECT; break; }
        if (data[p] == 0x98) p++;
        continue;
      }
      if (b == 0xED) n_next++;
      if (b == 0xFD) n_until++;
      if (b == 0xE3) n_for++;
      if (b == 0xF5) n_repeat++;
      if (b == '"') in_string = 1;
    }
  }
  r->verdict = verdict;
  if (verdict != R_ACCEPT) return;

  /* pass 2: events */
  unsigned line_number = 256u * hi + lo;
  if (line_number != 0) ref_emit(r, EV_NUM5, 0, line_number); else ref_emit(r, EV_PAD5, 0, 0);
  if (listo & 1) ref_emit(r, EV_LITERAL, 0, ' ');
  int indent = indent_in;
  if (listo & 2) indent -= 2 * (int)n_next;
  if (listo & 4) indent -= 2 * (int)n_until;
  if (indent > 0) ref_emit(r, EV_INDENT, 0, (unsigned)indent);
  {
    int in_string = 0;
    unsigned p = 0;
    while (p < len) {
      unsigned char b = data[p++];
      if (in_string) { ref_emit(r, EV_LITERAL, 0, b); if (b == '"') in_string = 0; continue; }
      unsigned char k = SPEC_KIND_base[b];
      if (k == K_LINENUM) { ref_emit(r, EV_TARGET, 0, ref_target(data[p], data[p+1], data[p+2])); p += 3; continue; }
      if (k == K_EXT6) { ref_emit(r, EV_TOKEN, 0, GOFF_c6[data[p]]); p++; continue; }
      if (k == K_EXT7) { ref_emit(r, EV_TOKEN, 0, GOFF_c7[data[p]]); p++; continue; }
      if (k == K_EXT8) { ref_emit(r, EV_TOKEN, 0, GOFF_c8[data[p]]); p++; continue; }
      if (k == K_PDP) {
        if (data[p] == 0x98) { ref_emit(r, EV_TOKEN, 0, SP_QUIT); p++; }
        else ref_emit(r, EV_TOKEN, 0, SP_LOAD);
        continue;
      }
      ref_emit(r, EV_TOKEN, 0, GOFF_base[b]);
      if (b == '"') in_string = 1;
    }
  }
  ref_emit(r, EV_LITERAL, 0, '\n');
  if (listo & 2) indent += 2 * (int)n_for;
  if (listo & 4) indent += 2 * (int)n_repeat;
  r->indent_out = indent;
}

/* integer code of a string handed to fputs(): its offset in the generated pool when it is a
   table string, else a content code for the two literals of handle_pdp_quit */
static unsigned vf_token_code(const char *s)
{
  if (__VF_SAME_OBJECT(s, genpool)) return (unsigned)(s - genpool);
#if SPEC_HAS_PDP
  if (s[0] == 'Q' && s[1] == 'U' && s[2] == 'I' && s[3] == 'T' && s[4] == 0) return SP_QUIT;
  if (s[0] == 'L' && s[1] == 'O' && s[2] == 'A' && s[3] == 'D' && s[4] == 0) return SP_LOAD;
#endif
  return 0xFFFF;
}

/* compare actual event i of the log with expected event i */
static int ev_equal(const struct refline *r, unsigned i)
{
  return LOGK[i] == r->evk[i] && LOGV[i] == r->evv[i];
}

#endif
