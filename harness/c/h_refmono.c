/* Oracle-only query: the framing reference (ref_frame.h) is prefix-monotone.
 * No repo code involved; it validates the argument that "real framing ==
 * reference framing" (framing queries) implies the prefix clause of C09:
 * for a file P and a cut k, the lines defined for P[0..k) are a prefix of the
 * lines defined for P, and a proper prefix of an accepted file is never accepted. */
#ifndef NIN
#define NIN 12
#endif
#define MAXEV 2
#define MAXCALLS (NIN / 4 + 1)
#include "env.h"
static unsigned vf_token_code(const char *s) { (void)s; return 0; }
#define LINE_OK(j) 1
#include "ref_frame.h"

static unsigned char P[NIN];
static struct refframe FULL, CUT;

void harness(void)
{
  unsigned n = vf_u32(), k = vf_u32();
  VF_ASSUME(n <= NIN && k < n);
  for (unsigned i = 0; i < NIN; ++i) P[i] = vf_u8();
  ref_frame(&FULL, P, n, 0);
  ref_frame(&CUT, P, k, 0);
  VF_ASSUME(FULL.verdict == R_ACCEPT);            /* an intact, well-formed program */
  VF_ASSERT(CUT.verdict != R_ACCEPT, "a proper prefix of a well-formed program is never well-formed");
  if (k > 0) VF_ASSERT(CUT.verdict == R_REJECT, "a non-empty proper prefix must be rejected");
  VF_ASSERT(CUT.n <= FULL.n, "prefix defines no more lines");
  for (unsigned j = 0; j < MAXCALLS; ++j)
    if (j < CUT.n && j < FULL.n)
      VF_ASSERT(CUT.hi[j] == FULL.hi[j] && CUT.lo[j] == FULL.lo[j] && CUT.len[j] == FULL.len[j] && CUT.off[j] == FULL.off[j],
                "lines of the prefix are the first lines of the intact file");
  if (FULL.n == 2 && CUT.n == 1) VF_WITNESS("two-line program cut after its first line");
}
