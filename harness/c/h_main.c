/* main()/wrapped_main() of /repo/basic/bbcbasic_to_text.c + decoder.c + tokens.c
 * (set_dialect, print_dialects, internal_dump_all_dialects) with:
 *   getopt_long  -> contract model driven by the REAL optstring and option table
 *   strtol/strcmp-> small C models
 *   fopen/fclose -> nondeterministic success/failure over the fake files
 *   decode_*_program -> recording stubs (their behaviour is the subject of the
 *                   line/framing queries); build_mapping -> precondition-checking
 *                   stub (goto-instrument --replace-calls), its own safety is
 *                   the mapping.* obligation
 * Modes: MODE_SAFE (C08), MODE_FILES (C09 per-file loop), MODE_IOFAIL (C11).
 */
#define NIN 2
#ifndef NFILES
#define NFILES 3
#endif
#define MAXEV 4
#define ENV_ANY_FORMAT 1
#include "env.h"
static unsigned vf_token_code(const char *s) { (void)s; return 0; }
#include <getopt.h>
#include <stdlib.h>

/* ------------------------------------------------------------ libc models */
char *optarg; int optind = 1, opterr = 1, optopt;
#define MAXOPTS 3
static unsigned n_options, first_operand;
static unsigned go_n;
static char argbuf[MAXOPTS][4];

static int is_optchar(char c) { return (c >= 'a' && c <= 'z') || (c >= 'A' && c <= 'Z') || (c >= '0' && c <= '9'); }

int getopt_long(int argc, char *const argv[], const char *optstring,
                const struct option *longopts, int *longindex)
{
  (void)argc; (void)argv;
  optarg = NULL;
  if (go_n >= n_options) { optind = (int)first_operand; return -1; }
  char *arg = argbuf[go_n];
  go_n++;
  unsigned kind = vf_u8();
  VF_ASSUME(kind <= 2);
  if (kind == 0) { diag_emitted = 1; return '?'; }      /* unknown option / missing argument: getopt printed a message */
  if (kind == 1) {
    unsigned n = 0;
    while (n < 16 && longopts[n].name != NULL) n++;
    unsigned k = vf_u8();
    VF_ASSUME(k < n);
    if (longopts[k].has_arg == 1) optarg = arg;
    else if (longopts[k].has_arg == 2 && vf_bool()) optarg = arg;
    if (longindex) *longindex = (int)k;
    if (longopts[k].flag) { *longopts[k].flag = longopts[k].val; return 0; }
    return longopts[k].val;
  }
  unsigned len = 0;
  while (len < 32 && optstring[len]) len++;
  unsigned j = vf_u8();
  VF_ASSUME(j < len && is_optchar(optstring[j]));
  if (optstring[j + 1] == ':') optarg = arg;
  return (unsigned char)optstring[j];
}

int strcmp(const char *a, const char *b)
{
  for (unsigned i = 0; i < 32; ++i) {
    unsigned char x = (unsigned char)a[i], y = (unsigned char)b[i];
    if (x != y) return x < y ? -1 : 1;
    if (!x) return 0;
  }
  return 0;
}

long strtol(const char *s, char **end, int base)
{
  VF_ASSERT(base == 10, "strtol base 10");
  unsigned i = 0; int neg = 0; long v = 0; int any = 0;
  while (i < 4 && (s[i] == ' ' || (s[i] >= '\t' && s[i] <= '\r'))) i++;
  if (s[i] == '+' || s[i] == '-') { neg = s[i] == '-'; i++; }
  while (i < 8 && s[i] >= '0' && s[i] <= '9') { v = v * 10 + (s[i] - '0'); i++; any = 1; }
  if (end) *end = (char *)(any ? s + i : s);
  return neg ? -v : v;
}

static unsigned files_opened;
static int outfile_opened;
static int bad_open_mode;
static FILE vf_outfile_obj;
FILE *fopen(const char *name, const char *mode)
{
  (void)name;
  if (mode[0] == 'w') { outfile_opened = 1; if (vf_bool()) return NULL; return &vf_outfile_obj; }
  if (!(mode[0] == 'r' && mode[1] == 'b' && mode[2] == 0)) bad_open_mode = 1;
  if (files_opened >= NFILES || vf_bool()) return NULL;
  return &vf_handles[files_opened++];
}
static unsigned closes;
int fclose(FILE *f) { (void)f; closes++; return vf_bool() ? EOF : 0; }

static int buffered_doomed;
int fflush(FILE *f)
{
  if (f == stderr) return 0;
  if (buffered_doomed) { buffered_doomed = 0; out_lost = 1; out_error_indicator = 1; return EOF; }
  return 0;
}

/* -------------------------------------------------- stubs for the decoders */
#include "decoder.h"
struct dcall { FILE *f; int listo; int big; unsigned dialect_seen; int ok; };
static struct dcall DC[NFILES + 1];
static unsigned ndc;
static unsigned last_dialect = 9999;
static int dialect_bad;

bool build_mapping_stub(unsigned dialect, struct expansion_map *m)
{
  if (dialect >= NUM_DIALECTS) dialect_bad = 1;
  VF_ASSERT(dialect < NUM_DIALECTS, "dialect passed to build_mapping is initialised and in range");
  last_dialect = dialect;
  for (unsigned i = 0; i < NUM_TOKENS; ++i) { m->base[i] = "B"; m->c6[i] = "6"; m->c7[i] = "7"; m->c8[i] = "8"; }
  return true;
}
/* Cut: the body of the undocumented regression-testing option -D/--dump-token-maps
   (7 x 4 x 256 fprintf calls) is not encoded; only its call protocol is. */
static int dump_called;
bool internal_dump_all_dialects_stub(const char *file_name)
{
  VF_ASSERT(file_name != NULL, "--dump-token-maps passes a file name");
  if (file_name != NULL) { char c = file_name[0]; (void)c; }
  dump_called = 1;
  if (vf_bool()) return true;
  diag_emitted = 1;           /* assumed contract: failure is reported (perror) */
  return false;
}
static bool dstub(FILE *f, int listo, int big)
{
  int ok = vf_bool();
#ifdef MODE_IOFAIL
  /* the decoder writes to stdout: the device may start refusing writes */
  if (out_fail_enabled && vf_bool()) {
    out_fail_armed = 1;
    if (vf_bool()) { out_lost = 1; out_error_indicator = 1; if (vf_bool()) ok = 0; }  /* a call reported failure (decoder may or may not have looked) */
    else buffered_doomed = 1;                                                       /* accepted into the buffer, will fail at flush */
  }
#endif
  if (ndc <= NFILES) { DC[ndc].f = f; DC[ndc].listo = listo; DC[ndc].big = big; DC[ndc].dialect_seen = last_dialect; DC[ndc].ok = ok; }
  ndc++;
  if (!ok) diag_emitted = 1;
  return ok;
}
bool decode_big_endian_program(FILE *f, const char *fn, const struct expansion_map *m, int listo)
{ (void)fn; (void)m; return dstub(f, listo, 1); }
bool decode_little_endian_program(FILE *f, const char *fn, const struct expansion_map *m, int listo)
{ (void)fn; (void)m; return dstub(f, listo, 0); }

/* ------------------------------------------------------------ the real code */
#define main real_main
#include REPO_MAIN_C        /* "/repo/basic/bbcbasic_to_text.c" */
#undef main
#include REPO_DECODER_C     /* "/repo/basic/decoder.c" */
#include REPO_TOKENS_C      /* "/repo/basic/tokens.c" */

static char prog[] = "prog";
static char dash[] = "-";
static char names[NFILES][3];

void harness(void)
{
  /* command line: argv[0], n_options option words (contents abstracted by the
     getopt model), then n_files operands */
  char *argv[1 + MAXOPTS * 2 + NFILES + 1];
  unsigned nopt = vf_u8(), nfiles = vf_u8();
  VF_ASSUME(nopt <= MAXOPTS && nfiles <= NFILES);
  n_options = nopt;
  for (unsigned i = 0; i < MAXOPTS; ++i) { for (unsigned k = 0; k < 3; ++k) argbuf[i][k] = (char)vf_u8(); argbuf[i][3] = 0; }
  unsigned pad = vf_u8();                 /* how many argv words the options occupy */
  VF_ASSUME(pad >= nopt && pad <= 2 * nopt);
  first_operand = 1 + pad;
  int argc = (int)(first_operand + nfiles);
  argv[0] = vf_bool() ? prog : NULL;
  for (unsigned i = 1; i < first_operand; ++i) argv[i] = prog;
  int is_dash[NFILES];
  for (unsigned i = 0; i < NFILES; ++i) {
    is_dash[i] = vf_bool();
    names[i][0] = (char)vf_u8(); names[i][1] = (char)vf_u8(); names[i][2] = 0;
    VF_ASSUME(!(names[i][0] == '-' && names[i][1] == 0));      /* "-" is modelled by is_dash */
    if (i < nfiles) argv[first_operand + i] = is_dash[i] ? dash : names[i];
  }
  argv[argc] = NULL;
  for (int i = 0; i < NFILES; ++i) vf_init_file(i);
#ifdef MODE_IOFAIL
  out_fail_enabled = 1;
#endif

  int rc = real_main(argc, argv);

  VF_ASSERT(rc == 0 || rc == 1, "exit status is 0 or 1");
  VF_ASSERT(rc == 0 || diag_emitted, "non-zero exit status is accompanied by a diagnostic");
  VF_ASSERT(!bad_open_mode, "input files are opened with mode rb");
  VF_ASSERT(!env_unknown_format, "stdout formats understood by the model");
#ifdef MODE_FILES
  /* every decoded file got the same dialect and listo, decode results accumulate into the exit status */
  for (unsigned i = 0; i < NFILES; ++i) if (i < ndc) {
    VF_ASSERT(DC[i].listo == DC[0].listo && DC[i].dialect_seen == DC[0].dialect_seen, "every file is decoded with the same options");
    VF_ASSERT(DC[i].dialect_seen < NUM_DIALECTS, "a fresh token map is built for each file");
    VF_ASSERT(DC[i].ok || rc == 1, "a failed file makes the exit status non-zero");
    VF_ASSERT(DC[i].big == (DC[i].dialect_seen == mos6502_32000 || DC[i].dialect_seen == ARM || DC[i].dialect_seen == Mac || DC[i].dialect_seen == PDP11),
              "big-endian framing exactly for 6502/32000, ARM, Mac, PDP11");
  }
  VF_ASSERT(ndc <= nfiles, "at most one decode per operand");
  {
    unsigned dashes = 0, stdin_decodes = 0;
    for (unsigned i = 0; i < NFILES; ++i) { if (i < nfiles && is_dash[i]) dashes++; if (i < ndc && DC[i].f == stdin) stdin_decodes++; }
    VF_ASSERT(stdin_decodes <= dashes, "standard input is read only for the operand -");
    if (ndc == nfiles)
      for (unsigned i = 0; i < NFILES; ++i) if (i < nfiles)
        VF_ASSERT((DC[i].f == stdin) == (is_dash[i] != 0), "operand - means standard input, any other operand is opened as a file");
  }
  if (ndc == 3 && !DC[0].ok && DC[2].ok) VF_WITNESS("three files, first fails, last succeeds");
  if (ndc == 2 && DC[0].f == stdin) VF_WITNESS("standard input then a file");
#endif
#ifdef MODE_IOFAIL
  VF_ASSERT(!buffered_doomed, "main flushes stdout before returning");
  VF_ASSERT(!out_lost || (rc != 0 && diag_emitted), "lost standard output => non-zero exit status and a diagnostic");
  if (out_lost && ndc == 2) VF_WITNESS("output lost while decoding the second file");
#endif
#ifdef MODE_SAFE
  if (rc == 0 && ndc == 2) VF_WITNESS("two files decoded successfully");
  if (rc == 1 && ndc == 0 && nfiles > 0) VF_WITNESS("failure before any decoding");
  if (nopt == 0 && ndc == 1) VF_WITNESS("no option at all: default dialect used");
  if (dump_called) VF_WITNESS("--dump-token-maps reached");
#endif
}
