/* Native generator, compiled and run on every check run against the CURRENT
 * /repo/basic/tokens.c: calls the real build_mapping(d) and prints a C
 * initialiser of an equal `struct expansion_map` whose strings live in one
 * pooled char array (a measured necessity for CBMC, see DESIGN.md 2.1/3).
 * Pointer identity of the four sentinels is preserved.
 *
 * usage: gen_map <dialect-number>   -> C source on stdout
 */
#include <stdio.h>
#include <stdlib.h>
#include <string.h>
#include "decoder.h"
#include "tokens.h"

static char pool[16384];
static size_t poolsz;

static size_t intern(const char *s)
{
  size_t n = strlen(s) + 1;
  for (size_t i = 0; i + n <= poolsz; ++i)
    if ((i == 0 || pool[i - 1] == 0) && memcmp(pool + i, s, n) == 0) return i;
  if (poolsz + n > sizeof pool) { fprintf(stderr, "pool overflow\n"); exit(2); }
  memcpy(pool + poolsz, s, n);
  poolsz += n;
  return poolsz - n;
}

static int dry;
#define OUT(...) do { if (!dry) printf(__VA_ARGS__); } while (0)

static void emit_ptr(const struct expansion_map *m, const char *p)
{
  if (p == NULL) { OUT("0"); return; }
  if (p == invalid) { OUT("invalid"); return; }
  if (p == line_num) { OUT("line_num"); return; }
  if (p == fastvar) { OUT("fastvar"); return; }
  if (p == pdp_c8) { OUT("pdp_c8"); return; }
  (void)m;
  size_t off = intern(p);
  OUT("genpool+%zu", off);
}

static void emit_off(const char *name, const char *const *t)
{
  OUT("static const unsigned short GOFF_%s[256] = {", name);
  for (int i = 0; i < 256; ++i) {
    const char *p = t[i];
    unsigned v = 0xFFFF;
    if (p && p != invalid && p != line_num && p != fastvar && p != pdp_c8) v = (unsigned)intern(p);
    OUT("%u,", v);
  }
  OUT("};\n");
}

static void emit_tab(const struct expansion_map *m, const char *name, const char *const *t)
{
  OUT(" .%s = {\n", name);
  for (int i = 0; i < 256; ++i) { OUT("  "); emit_ptr(m, t[i]); OUT(",\n"); }
  OUT(" },\n");
}

int main(int argc, char **argv)
{
  if (argc != 2) return 2;
  unsigned d = (unsigned)atoi(argv[1]);
  static struct expansion_map m;
  memset(&m, 0, sizeof m);
  if (d >= NUM_DIALECTS) return 2;
  if (!build_mapping(d, &m)) return 3;
  for (int pass = 0; pass < 2; ++pass) {
    dry = (pass == 0);
    if (pass == 1) {
      OUT("/* generated from the real build_mapping(%u) */\n", d);
      OUT("static const char genpool[%zu] = {", poolsz);
      for (size_t i = 0; i < poolsz; ++i) OUT("%s%d", i ? "," : "", (int)(signed char)pool[i]);
      OUT("};\n");
    }
    OUT("static const struct expansion_map GMAP = {\n .ascii = {");
    for (int i = 0; i < 0x80; ++i) OUT("{%d,%d},", m.ascii[i][0], m.ascii[i][1]);
    OUT("},\n");
    emit_tab(&m, "base", m.base);
    emit_tab(&m, "c6", m.c6);
    emit_tab(&m, "c7", m.c7);
    emit_tab(&m, "c8", m.c8);
    OUT("};\n");
    emit_off("base", m.base); emit_off("c6", m.c6); emit_off("c7", m.c7); emit_off("c8", m.c8);
  }
  return 0;
}
