/* Line query: the REAL static decode_line (+ handle_token,
 * handle_special_token, handle_pdp_quit, print_target_line_number, count)
 * from /repo/basic/lines.c against the reference line decoder, for every
 * data[LMAX], len <= LMAX, line number, *indent in [-8,8], listo in 0..7.
 *
 * Build: -DLMAX=<L> -DMODE_<x>, with map.h (generated from the real
 * build_mapping each run) and spec_tables.h on the include path.
 *
 * MODE_CONFORM  (C03): reference accepts  => real accepts, same events, same indent-out
 * MODE_REJECT   (C09): reference rejects  => real returns false with a diagnostic
 * MODE_SAFE     (C08): nothing assumed about the data; only CBMC's built-in
 *                      checks + "false => diagnostic" are asserted
 */
#ifndef LMAX
#define LMAX 8
#endif
#define NIN 4
#define MAXEV (LMAX + 6)
#include "env.h"
/* the four sentinel objects of tokens.c (lines.c compares pointers with them) */
const char invalid[] = "__invalid__";
const char line_num[] = "__line_num__";
const char fastvar[] = "__fastvar__";
const char pdp_c8[] = "__pdp__";
#include REPO_LINES_C          /* "/repo/basic/lines.c" : the real code, static functions visible */
void please_submit_bug_report(void) { diag_emitted = 1; }
#include "map.h"               /* GMAP: generated from the real build_mapping(DIALECT) */
#include "ref.h"

unsigned char DATA[LMAX];
struct refline REF;

void harness(void)
{
  unsigned char hi = vf_u8(), lo = vf_u8(), len = vf_u8();
  int listo = vf_i32(), indent = vf_i32();
  long file_pos = vf_i64();
  VF_ASSUME(len <= LMAX);
  VF_ASSUME(listo >= 0 && listo <= 7);
  VF_ASSUME(indent >= -8 && indent <= 8);
  VF_ASSUME(file_pos >= 0 && file_pos <= 0x7fffffffL);   /* it comes from ftell() */
  for (unsigned i = 0; i < LMAX; ++i) DATA[i] = vf_u8();
  int indent_in = indent;
#ifdef MODE_IOFAIL
  out_fail_enabled = 1;
#endif

#if defined(MODE_CONFORM) || defined(MODE_REJECT)
  ref_line(&REF, hi, lo, len, DATA, indent_in, listo);
#endif
#ifdef MODE_CONFORM
  VF_ASSUME(REF.verdict == R_ACCEPT);
#endif
#ifdef MODE_REJECT
  VF_ASSUME(REF.verdict == R_REJECT);
#endif

  bool ok = decode_line(hi, lo, len, (const char *)DATA, file_pos, &GMAP, &indent, listo);

  VF_ASSERT(!env_unknown_format, "stdout formats are the ones the model understands");
  VF_ASSERT(ok || diag_emitted, "failure is accompanied by a diagnostic");
#ifdef MODE_CONFORM
  VF_ASSERT(!REF.overflow && !log_overflow, "event log large enough");
  VF_ASSERT(ok, "well-formed line is accepted");
  VF_ASSERT(nlog == REF.n, "same number of output events");
  for (unsigned i = 0; i < MAXEV; ++i)
    if (i < REF.n && i < nlog)
      VF_ASSERT(ev_equal(&REF, i), "output event equals the documented listing");
  VF_ASSERT(indent == REF.indent_out, "indentation carried to the next line");
  if (len == LMAX && DATA[0] == 0x8D) VF_WITNESS("full-length line starting with a line-number reference");
  if (REF.loop_byte_hidden && (listo & 6)) VF_WITNESS("loop-keyword byte value inside a string with LISTO indentation on");
  if (len >= 3 && DATA[0] == '"' && DATA[1] >= 0x80 && DATA[2] == '"') VF_WITNESS("token byte inside a string");
  if ((listo & 2) && indent_in > 2 && len >= 1 && DATA[0] == 0xED) VF_WITNESS("NEXT with LISTO bit 1");
#endif
#ifdef MODE_REJECT
  VF_ASSERT(!ok, "ill-formed line is rejected");
  if (len >= 2 && DATA[0] == 0x8D) VF_WITNESS("line-number reference cut by end of line");
  if (len == 1) VF_WITNESS("single invalid byte");
#endif
#ifdef MODE_IOFAIL
  /* C11: a stdout primitive may report failure from any call on; decode_line must then fail (with perror) */
  VF_ASSERT(!out_lost || (!ok && diag_emitted), "lost output makes decode_line fail with a diagnostic");
  if (out_lost && nlog >= 2) VF_WITNESS("output lost after two successful writes");
  if (out_lost && len == LMAX && nlog >= LMAX) VF_WITNESS("output lost on the final newline");
#endif
#ifdef MODE_SAFE
  if (len == LMAX) VF_WITNESS("full-length arbitrary line");
  if (!ok) VF_WITNESS("rejected line");
#endif
}
