// Native implementation of the primitives (replay / validation builds).
#include "vf.h"
#include <stdio.h>
#include <stdlib.h>
extern "C" {
uint64_t vf_next(void);
void vf_fail(const char *msg);
void vf_bad_assume(const char *what);
uint8_t  vf_nondet_u8(void)  { return (uint8_t)vf_next(); }
uint16_t vf_nondet_u16(void) { return (uint16_t)vf_next(); }
uint32_t vf_nondet_u32(void) { return (uint32_t)vf_next(); }
uint64_t vf_nondet_u64(void) { return vf_next(); }
void vf_assume(bool c) { if (!c) vf_bad_assume("harness assumption"); }
void vf_assert(bool c, const char *msg) { if (!c) vf_fail(msg); }
void vf_witness(const char *) {}
void vf_observe(uint64_t v) { printf("OBS %llu\n", (unsigned long long)v); fflush(stdout); }
}
