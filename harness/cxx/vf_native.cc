// Native implementation of the primitives (replay / validation builds).
#include "vf.h"
#include <stdio.h>
#include <stdlib.h>
extern "C" {
uint64_t vf_next(void);
void vf_fail(const char *msg);
void vf_bad_assume(const char *what);
uint8_t  vf_nondet_u8(void)  { return (uint8_t)vf_next(); }
uint16_t vf_nondet_u16(void) { return (uint16_t)vf_next(); }
uint32_t vf_nondet_u32(void) { return (uint32_t)vf_next(); }
uint64_t vf_nondet_u64(void) { return vf_next(); }
void vf_assume(bool c) { if (!c) vf_bad_assume("harness assumption"); }
void vf_assert(bool c, const char *msg) { if (!c) vf_fail(msg); }
void vf_witness(const char *) {}
void vf_observe(uint64_t v) { printf("OBS %llu\n", (unsigned long long)v); fflush(stdout); }
}

// ---- native backing of the in-memory stdio file used by w_gz.cc (under CBMC these are models in stubs/vf_stubs.c)
#include <string.h>
static unsigned char vfz_data[48]; static unsigned long vfz_size;
extern "C" {
void vfz_setup(unsigned long size) { vfz_size = size; }
void vfz_poke(unsigned long i, unsigned char v) { if (i < 48) vfz_data[i] = v; }
unsigned char vfz_peek(unsigned long i) { return i < 48 ? vfz_data[i] : 0; }
void *vfz_file(void)
{
  FILE *f = tmpfile();
  if (f && vfz_size) { fwrite(vfz_data, 1, vfz_size, f); fflush(f); }
  return f;
}
}
