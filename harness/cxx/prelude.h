// Common prelude of the wrapper TUs: every standard header the repo uses is
// included BEFORE `private` is made public, so libstdc++ itself is compiled
// unmodified; then the real dfs/*.cc files are #included by the wrapper.
#ifndef VF_PRELUDE_H
#define VF_PRELUDE_H
#include <assert.h>
#include <ctype.h>
#include <errno.h>
#include <limits.h>
#include <stddef.h>
#include <stdint.h>
#include <stdio.h>
#include <stdlib.h>
#include <string.h>
#include <regex.h>
#include <algorithm>
#include <array>
#include <cassert>
#include <cctype>
#include <cstdint>
#include <deque>
#include <exception>
#include <fstream>
#include <functional>
#include <initializer_list>
#include <iomanip>
#include <iosfwd>
#include <iostream>
#include <iterator>
#include <limits>
#include <locale>
#include <map>
#include <memory>
#include <numeric>
#include <optional>
#include <ostream>
#include <set>
#include <sstream>
#include <stdexcept>
#include <string>
#include <tuple>
#include <type_traits>
#include <utility>
#include <vector>
#include "vf.h"
#ifdef VF_INSTANTIATE_STRING
// With -fno-inline the small std::string members are no longer inlined and libstdc++ declares them
// `extern template`; an explicit instantiation definition makes this TU carry the real libstdc++ code.
template class std::allocator<char>;
template class std::basic_string<char>;
#endif
#include "strmodel.h"    /* optional (-DVF_STRMODEL): fixed-capacity model of std::string for the encoding */
#define VF_IOMODEL_DEFINE 1
#include "iomodel.h"      /* capture model of iostream; renames ostream/cout/cerr/... for the code below */
#define private public
#define protected public
#endif
