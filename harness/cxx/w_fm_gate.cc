// Wrapper TU (built with -fno-inline): the REAL decode_fm_track / decode_mfm_track
// with their bit-level callees replaced by contract stubs (assume/guarantee):
//   BitStream::scan_for   -> "not found" or any position >= start with any window value
//   copy_fm_bytes / copy_mfm_bytes -> failure, or n arbitrary bytes appended and the position advanced
//   get_crc / CRC16Base::{update,get} -> arbitrary CRC residue
// Every stub call and answer is logged; an independent reference automaton
// (written from the IBM 3740 / System 34 track format: ID field, then data
// field; both CRC-protected; deleted-data records are not data) replays the log
// and says which sectors must be yielded.  The callees' contracts are
// themselves checked on the real code by the kernels of w_track.cc.
#include "prelude.h"
namespace DFS { bool verbose = false; }
#include "/repo/dfs/crc16.cc"
#include "/repo/dfs/track.cc"
#include "/repo/dfs/hexdump.cc"
#define read_byte fm_read_byte
#define get_crc fm_get_crc
#include "/repo/dfs/track_fm.cc"
#undef read_byte
#undef get_crc
#define read_byte mfm_read_byte
#include "/repo/dfs/track_mfm.cc"
#undef read_byte

using Track::byte;

namespace gate {
enum Kind : unsigned char { SCAN = 1, COPY, CRC_ID, CRC_DATA };
#ifndef GATE_MAXE
#define GATE_MAXE 12
#endif
#ifndef SIZE_CODE
#define SIZE_CODE 1
#endif
constexpr unsigned MAXE = GATE_MAXE;
unsigned probe;                // byte offset at which the contents of copied fields are compared (symbolic, fixed per run)
unsigned char kind[MAXE];
bool ok[MAXE];                 // SCAN: found; COPY: success
unsigned long a[MAXE];         // SCAN: pattern searched for; COPY: n; CRC: residue
unsigned long b[MAXE];         // SCAN: window value returned; COPY: seed of the bytes
unsigned long pos[MAXE];       // SCAN: position returned; COPY: position before
unsigned n;
bool too_many;

// byte i of a copy with seed s (arbitrary but reproducible, so that any byte can be checked later)
inline byte gen(unsigned long seed, unsigned long i) { return static_cast<byte>((seed >> ((i & 7) * 8)) ^ (i * 29u)); }

unsigned slot()
{
  if (n >= MAXE) { too_many = true; vf_assume(false); }
  return n++;
}

std::optional<std::pair<size_t, int64_t>> stub_scan_for(const Track::BitStream *self, size_t start, uint64_t val, uint64_t mask)
{
  (void)mask;
  const unsigned k = slot();
  kind[k] = SCAN; a[k] = val; pos[k] = start;
  const bool found = vf_nondet_u8() & 1;
  ok[k] = found;
  if (!found) return std::nullopt;
  const size_t p = vf_nondet_u32();
  vf_assume(p >= start && p < self->size());          // contract of the real scan_for (kernel h_scan_for)
  const int64_t window = static_cast<int64_t>(vf_nondet_u64());
  b[k] = static_cast<unsigned long>(window); pos[k] = p;
  return std::make_pair(p, window);
}

bool stub_copy_bytes(const Track::BitStream& bits, size_t& thisbit, size_t count, std::vector<byte> *out)
{
  (void)bits;
  const unsigned k = slot();
  kind[k] = COPY; a[k] = count; pos[k] = thisbit;
  const bool success = vf_nondet_u8() & 1;
  ok[k] = success;
  const unsigned long seed = vf_nondet_u64();
  b[k] = seed;
  const size_t adv = vf_nondet_u32();
  vf_assume(adv <= 16 * count);
  thisbit += success ? 16 * count : adv;                // a failed copy stops anywhere inside the field
  const size_t got = success ? count : adv / 16;
  const size_t old = out->size();
  out->resize(old + got);                               // value-initialised; only the bytes anybody looks at are given their values:
  for (size_t i = 0; i < 6; ++i) if (i < got) (*out)[old + i] = gen(seed, i);                    // header bytes
  if (probe < got) (*out)[old + probe] = gen(seed, probe);                                         // the compared byte
  if (got >= 2) { (*out)[old + got - 2] = gen(seed, got - 2); (*out)[old + got - 1] = gen(seed, got - 1); }   // CRC bytes
  if (count == 6 && got >= 4) (*out)[old + 3] = SIZE_CODE;      // the size code is fixed per query: allocation sizes stay concrete
  return success;
}
bool stub_copy_fm_bytes(const Track::BitStream& bits, size_t& thisbit, size_t count, std::vector<byte> *out, bool)
{ return stub_copy_bytes(bits, thisbit, count, out); }
bool stub_copy_mfm_bytes(const Track::BitStream& bits, size_t& thisbit, size_t count, std::vector<byte> *out, std::string&)
{ return stub_copy_bytes(bits, thisbit, count, out); }

unsigned long stub_get_crc(const std::vector<byte>&)
{
  const unsigned k = slot();
  kind[k] = CRC_ID; a[k] = (vf_nondet_u8() & 1) ? 0 : (1 + (vf_nondet_u16() % 0xFFFF));
  return a[k];
}
void stub_crc_update(DFS::CRC16Base *, const uint8_t *, const uint8_t *) {}
unsigned long stub_crc_get(const DFS::CRC16Base *)
{
  const unsigned k = slot();
  kind[k] = CRC_DATA; a[k] = (vf_nondet_u8() & 1) ? 0 : (1 + (vf_nondet_u16() % 0xFFFF));
  return a[k];
}
bool stub_check_crc_with_a1s(const std::vector<byte>&, std::string&)
{
  const unsigned k = slot();
  kind[k] = CRC_DATA; a[k] = (vf_nondet_u8() & 1) ? 0 : 1;
  return a[k] == 0;
}
void stub_self_test_crc() {}
}  // namespace gate

// ---------------------------------------------------------------- reference automaton, FM (IBM 3740)
namespace {
struct Expect { unsigned id_ev, data_ev; };
constexpr unsigned MAXSEC = 4;
}

extern "C" void h_fm_gate(void)
{
  std::vector<byte> track(64);
  Track::BitStream bits(track, 1, 2);
  gate::probe = vf_nondet_u16() % 256;
#ifdef GATE_VERBOSE
  const bool verbose = true;
#else
  const bool verbose = false;
#endif
  std::vector<Track::Sector> got = Track::decode_fm_track(bits, verbose);

  // replay the log
  Expect want[MAXSEC]; unsigned nwant = 0; bool protocol_ok = true;
  unsigned e = 0;
  const unsigned long ID_MARK = 0xAAAAAAAAF57Eull, REC_MARK = 0xAAAAAAAAF56Aull;
  for (unsigned guard = 0; guard < gate::MAXE && e < gate::n; ++guard)
    {
      // --- an ID field: sync + FE mark, C H R N, CRC
      if (!(gate::kind[e] == gate::SCAN && gate::a[e] == ID_MARK)) { protocol_ok = false; break; }
      if (!gate::ok[e]) { ++e; break; }
      ++e; if (e >= gate::n) break;
      if (!(gate::kind[e] == gate::COPY && gate::a[e] == 6)) { protocol_ok = false; break; }
      const unsigned id_ev = e;
      if (!gate::ok[e]) { ++e; continue; }
      ++e; if (e >= gate::n) break;
      if (gate::kind[e] != gate::CRC_ID) { protocol_ok = false; break; }
      if (gate::a[e] != 0) { ++e; continue; }             // ID CRC bad: the ID is ignored
      ++e;
      const unsigned size_code = SIZE_CODE;
      if (size_code > 3) continue;                          // not a valid ID
      const unsigned sec_size = 128u << size_code;
      // --- the record that follows: sync + data mark (FB) or deleted-data mark (F8)
      bool have_mark = false, deleted = false, ended = false;
      for (unsigned g2 = 0; g2 < gate::MAXE && e < gate::n; ++g2)
        {
          if (!(gate::kind[e] == gate::SCAN && gate::a[e] == REC_MARK)) { protocol_ok = false; ended = true; break; }
          if (!gate::ok[e]) { ++e; ended = true; break; }
          const unsigned long mark = gate::b[e] & 0xFFFF;
          ++e;
          if (mark == 0xF56F || mark == 0xF56A) { have_mark = true; deleted = (mark == 0xF56A); break; }
        }
      if (!protocol_ok || ended) break;
      if (!have_mark) break;
      if (e >= gate::n) break;
      if (!(gate::kind[e] == gate::COPY && gate::a[e] == sec_size + 2)) { protocol_ok = false; break; }
      const unsigned data_ev = e;
      if (!gate::ok[e]) { ++e; continue; }
      ++e; if (e >= gate::n) break;
      if (gate::kind[e] != gate::CRC_DATA) { protocol_ok = false; break; }
      const bool crc_good = gate::a[e] == 0;
      ++e;
      if (crc_good && !deleted && nwant < MAXSEC) { want[nwant].id_ev = id_ev; want[nwant].data_ev = data_ev; ++nwant; }
    }
  vf_assume(!gate::too_many);
  vf_assert(protocol_ok, "the decoder consults its bit-level helpers in the order of the track format");
  vf_assert(got.size() == nwant, "exactly the records with a good ID CRC, a data (not deleted-data) mark and a good data CRC are yielded");
  const unsigned probe = gate::probe;
  for (unsigned i = 0; i < MAXSEC; ++i)
    if (i < nwant && i < got.size())
      {
        const unsigned long ids = gate::b[want[i].id_ev], ds = gate::b[want[i].data_ev];
        const unsigned sz = 128u << SIZE_CODE;
        vf_assert(got[i].address.cylinder == gate::gen(ids, 0) && got[i].address.head == gate::gen(ids, 1) && got[i].address.record == gate::gen(ids, 2),
                  "the address is the one in the CRC-checked ID field that precedes the data field");
        vf_assert(got[i].data.size() == sz, "the data length is the one announced by the ID field");
        if (probe < sz) vf_assert(got[i].data[probe] == gate::gen(ds, probe), "the data are the bytes of that data field");
        vf_assert(got[i].crc[0] == gate::gen(ds, sz) && got[i].crc[1] == gate::gen(ds, sz + 1), "the recorded CRC bytes follow the data");
      }
  vf_observe(got.size()); vf_observe(nwant);
  if (nwant == 2) vf_witness("two sectors yielded");
  if (nwant == 0 && gate::n >= 6) vf_witness("records seen but none yielded");
}
