// Wrapper TU: bit-stream primitives, CRC, FM/MFM track decoders.
#include "prelude.h"
namespace DFS { bool verbose = false; }
#include "/repo/dfs/crc16.cc"
#include "/repo/dfs/track.cc"
#include "/repo/dfs/hexdump.cc"
#define read_byte fm_read_byte
#define get_crc fm_get_crc
#include "/repo/dfs/track_fm.cc"
#undef read_byte
#undef get_crc
#define read_byte mfm_read_byte
#include "/repo/dfs/track_mfm.cc"
#undef read_byte

using Track::byte;

// ---------------------------------------------------------------- C05-K1
extern "C" void h_reverse_bits(void)
{
  const byte in = vf_nondet_u8();
  const byte out = Track::reverse_bit_order(in);
  for (int i = 0; i < 8; ++i)
    vf_assert(((out >> i) & 1) == ((in >> (7 - i)) & 1), "bit i of the result is bit 7-i of the input");
  vf_assert(Track::reverse_bit_order(out) == in, "bit reversal is an involution");
  vf_observe(out);
  if (in == 0x43 && out == 0xC2) vf_witness("0x43 reverses to 0xC2");
}

// ---------------------------------------------------------------- C02-K4 / C05-K5 / C06: CRC step lemma
// One byte fed to CRC16Base::update equals 8 steps of bitwise long division by x^16+x^12+x^5+1,
// for every 16-bit state.  By induction on the length this is CRC-16/CCITT for every message.
static unsigned ref_crc_byte(unsigned crc, unsigned b)
{
  crc ^= b << 8;
  for (int k = 0; k < 8; ++k)
    crc = (crc & 0x8000) ? ((crc << 1) ^ 0x1021) & 0xFFFF : (crc << 1) & 0xFFFF;
  return crc;
}
extern "C" void h_crc_step(void)
{
  const unsigned state = vf_nondet_u16();
  const uint8_t b[2] = { vf_nondet_u8(), vf_nondet_u8() };
  DFS::CRC16Base c(static_cast<uint16_t>(state));
  c.update(b, b + 1);
  vf_assert(c.get() == ref_crc_byte(state, b[0]), "one byte = 8 long-division steps by 0x11021");
  c.update(b + 1, b + 2);
  vf_assert(c.get() == ref_crc_byte(ref_crc_byte(state, b[0]), b[1]), "two bytes compose");
  DFS::CCITT_CRC16 ccitt; DFS::TapeCRC tape;
  vf_assert(ccitt.get() == 0xFFFF, "CCITT CRC starts at 0xFFFF");
  vf_assert(tape.get() == 0, "XMODEM/tape CRC starts at 0");
  DFS::CRC16Base d(static_cast<uint16_t>(state));
  d.update(b, b);
  vf_assert(d.get() == state, "empty range leaves the state unchanged");
  vf_observe(c.get());
  if (state == 0xFFFF && b[0] == 'T' && c.get() == 0x95A0) vf_witness("the self-test vector TQ");
}

// ---------------------------------------------------------------- C05-K3 / C06-G2: BitStream::scan_for
#ifndef SCAN_BYTES
#define SCAN_BYTES 6
#endif
extern "C" void h_scan_for(void)
{
  std::vector<byte> data(SCAN_BYTES);
  for (unsigned i = 0; i < SCAN_BYTES; ++i) data[i] = vf_nondet_u8();
  const bool fm = vf_nondet_u8() & 1;
  Track::BitStream bits(data, fm ? 1 : 0, fm ? 2 : 1);
  const size_t start = vf_nondet_u8();
  const uint64_t val = vf_nondet_u64();
  const unsigned width = vf_nondet_u8();
  vf_assume(width >= 1 && width <= 16);
  const uint64_t mask = (width == 64) ? ~0ull : ((1ull << width) - 1);
  const size_t nbits = bits.size();
  vf_assert(nbits == (SCAN_BYTES * 8 - (fm ? 1 : 0)) / (fm ? 2 : 1), "size() counts the cooked bits");
  auto found = bits.scan_for(start, val, mask);
  // reference: first cooked position p >= start+width-1 such that bits [p-width+1 .. p] equal val&mask
  bool exists = false; size_t first = 0;
  for (size_t p = 0; p < SCAN_BYTES * 8; ++p)
    {
      if (exists || p >= nbits || p < start + width - 1) continue;
      if (fm && 2 * p + 1 >= SCAN_BYTES * 8) continue;
      uint64_t w = 0;
      for (unsigned k = 0; k < 16; ++k)
        if (k < width) w = (w << 1) | (bits.getbit(p - width + 1 + k) ? 1u : 0u);
      if (w == (val & mask)) { exists = true; first = p; }
    }
  vf_assert(found.has_value() == exists, "a match is reported iff the pattern occurs at or after start");
  if (found && exists)
    {
      vf_assert(found->first == first, "the first occurrence is the one reported");
      vf_assert((static_cast<uint64_t>(found->second) & mask) == (val & mask), "the reported window is the pattern");
    }
  vf_observe(found.has_value()); if (found) vf_observe(found->first);
  if (found && found->first == nbits - 1) vf_witness("match ending on the last bit of the stream");
  if (!found && start < nbits) vf_witness("no match");
}

// ---------------------------------------------------------------- C06-G2: decoders on arbitrary short streams
#ifndef STREAM_BYTES
#define STREAM_BYTES 24
#endif
static void decoder_on_arbitrary_stream(bool fm)
{
  std::vector<byte> data(STREAM_BYTES);
  for (unsigned i = 0; i < STREAM_BYTES; ++i) data[i] = vf_nondet_u8();
  Track::BitStream bits(data, fm ? 1 : 0, fm ? 2 : 1);
  const bool verbose = vf_nondet_u8() & 1;
  std::vector<Track::Sector> got = fm ? Track::decode_fm_track(bits, verbose) : Track::decode_mfm_track(bits, verbose);
  // no sector of 128 bytes or more fits into so short a stream: anything yielded would be invented
  vf_assert(got.empty(), "a stream too short to hold a sector yields no sector");
  vf_observe(got.size());
  vf_witness("decoder returned");
}
extern "C" void h_fm_short_stream(void) { decoder_on_arbitrary_stream(true); }
extern "C" void h_mfm_short_stream(void) { decoder_on_arbitrary_stream(false); }

// ---------------------------------------------------------------- C06/C05: one FM sector, symbolic damage
// A concrete IBM-3740 FM track skeleton (gap, sync, ID field, gap, sync, data field) holding one
// 128-byte sector whose address bytes, two payload bytes, data mark (normal / deleted) and the error
// added to each CRC are symbolic.  The real decode_fm_track (with all its real callees) must yield
// the sector exactly when nothing was damaged, with exactly the recorded address and bytes.
namespace {
struct FmWriter
{
  std::vector<byte> raw; size_t cell = 0;
  explicit FmWriter(size_t ncells) : raw((2 * ncells + 7) / 8) {}
  void put_cell(bool v) { const size_t bit = 2 * cell + 1; if (v) raw[bit / 8] = static_cast<byte>(raw[bit / 8] | (1u << (bit % 8))); ++cell; }
  void put(byte data, byte clock = 0xFF) { for (int i = 7; i >= 0; --i) { put_cell((clock >> i) & 1); put_cell((data >> i) & 1); } }
};
unsigned crc_over(unsigned crc, const byte *p, size_t n) { for (size_t i = 0; i < n; ++i) crc = ref_crc_byte(crc, p[i]); return crc; }
}
extern "C" void h_fm_one_sector(void)
{
  constexpr unsigned SZ = 128;
  const byte C = vf_nondet_u8(), H = vf_nondet_u8(), R = vf_nondet_u8();
  const bool deleted = vf_nondet_u8() & 1;
  const unsigned id_err = vf_nondet_u16(), data_err = vf_nondet_u16();
  const unsigned k = vf_nondet_u8() % SZ;
  const byte vk = vf_nondet_u8(), v0 = vf_nondet_u8();
  byte payload[SZ];
  for (unsigned i = 0; i < SZ; ++i) payload[i] = static_cast<byte>(0xE5 ^ i);
  payload[0] = v0; payload[k] = vk;
  const byte idf[5] = { 0xFE, C, H, R, 0 };
  const unsigned idcrc = crc_over(0xFFFF, idf, 5) ^ id_err;
  const byte mark = deleted ? 0xF8 : 0xFB;
  unsigned dcrc = ref_crc_byte(0xFFFF, mark);
  dcrc = crc_over(dcrc, payload, SZ) ^ data_err;

  FmWriter w(16 * (4 + 6 + 7 + 11 + 6 + 1 + SZ + 2 + 6));
  for (int i = 0; i < 4; ++i) w.put(0xFF);
  for (int i = 0; i < 6; ++i) w.put(0x00);
  w.put(0xFE, 0xC7); w.put(C); w.put(H); w.put(R); w.put(0);
  w.put(static_cast<byte>(idcrc >> 8)); w.put(static_cast<byte>(idcrc));
  for (int i = 0; i < 11; ++i) w.put(0xFF);
  for (int i = 0; i < 6; ++i) w.put(0x00);
  w.put(mark, 0xC7);
  for (unsigned i = 0; i < SZ; ++i) w.put(payload[i]);
  w.put(static_cast<byte>(dcrc >> 8)); w.put(static_cast<byte>(dcrc));
  for (int i = 0; i < 6; ++i) w.put(0xFF);

  Track::BitStream bits(w.raw, 1, 2);
  std::vector<Track::Sector> got = Track::decode_fm_track(bits, false);
  const bool intact = id_err == 0 && data_err == 0 && !deleted;
  if (intact)
    {
      vf_assert(got.size() == 1, "an undamaged sector is yielded exactly once");
      if (got.size() == 1)
        {
          vf_assert(got[0].address.cylinder == C && got[0].address.head == H && got[0].address.record == R, "with the address recorded in its ID field");
          vf_assert(got[0].data.size() == SZ && got[0].data[k] == vk && got[0].data[0] == v0, "and exactly the recorded bytes");
        }
    }
  else
    vf_assert(got.empty(), "a sector whose ID or data CRC does not check, or whose mark is deleted-data, is dropped");
  vf_observe(got.size());
  if (intact) vf_witness("undamaged sector");
  if (!intact && data_err != 0 && id_err == 0 && !deleted) vf_witness("data field damaged only");
  if (deleted && id_err == 0 && data_err == 0) vf_witness("deleted-data record with good CRCs");
}

// ---------------------------------------------------------------- C01-K4 / C18: hexdump_bytes row format, stream state restored
#ifndef DUMP_BYTES
#define DUMP_BYTES 9
#endif
extern "C" void h_hexdump(void)
{
  byte body[DUMP_BYTES];
  for (unsigned i = 0; i < DUMP_BYTES; ++i) body[i] = vf_nondet_u8();
#ifdef DUMP_N
  const unsigned n = DUMP_N;       // the body length is a constant per query so that the expected event positions are concrete
#else
  const unsigned n = vf_nondet_u8(); vf_assume(n <= DUMP_BYTES);
#endif
  std::cout << std::hex << std::uppercase;                       // as `dump` does before calling
  const unsigned before_flags = std::cout.flags();
  const unsigned first = vfio::nev;
  const bool ok = DFS::hexdump_bytes(std::cout, 0, 8, body, body + n);
  vf_assert(ok, "hexdump succeeds");
  vf_assert(std::cout.flags() == before_flags, "the stream's format flags are restored");
  vf_assert(!vfio::overflow, "event log large enough");
  // expected rows: ceil(n/8) rows (none for n == 0); row r: offset 8r as 6 decimal digits zero-filled, 8 cells of
  // ' ' + two upper-case hex digits (or " **" beyond the end), ' ', 8 characters (the byte if printable else '.'), newline
  unsigned e = first;
  const unsigned rows = (n + 7) / 8;
  for (unsigned r = 0; r < 2; ++r)
    if (r < rows)
      {
        vf_assert(vfio::ev_kind[e] == vfio::K_NUM && vfio::ev_val[e] == 8 * r && vfio::ev_base[e] == 10 && vfio::ev_width[e] == 6 && vfio::ev_fill[e] == '0', "row offset: 6 decimal digits");
        ++e;
        for (unsigned c = 0; c < 8; ++c)
          {
            const unsigned idx = 8 * r + c;
            if (idx < n)
              {
                vf_assert(vfio::ev_kind[e] == vfio::K_CHAR && vfio::ev_val[e] == ' ', "cell separator"); ++e;
                vf_assert(vfio::ev_kind[e] == vfio::K_NUM && vfio::ev_val[e] == body[idx] && vfio::ev_base[e] == 16 && vfio::ev_width[e] == 2 && vfio::ev_fill[e] == '0' && vfio::ev_upper[e], "byte as two upper-case hex digits");
                ++e;
              }
            else { vf_assert(vfio::ev_kind[e] == vfio::K_TEXT, "padding cell beyond the end of the data"); ++e; }
          }
        vf_assert(vfio::ev_kind[e] == vfio::K_CHAR && vfio::ev_val[e] == ' ', "separator before the character column"); ++e;
        for (unsigned c = 0; c < 8; ++c)
          {
            const unsigned idx = 8 * r + c;
            const unsigned ch = idx < n ? body[idx] : '.';
            const unsigned shown = (ch == ' ' || (ch > 0x20 && ch < 0x7F)) ? ch : '.';
            vf_assert(vfio::ev_kind[e] == vfio::K_CHAR && vfio::ev_val[e] == shown, "character column: the byte itself if printable ASCII, otherwise a dot");
            ++e;
          }
        vf_assert(vfio::ev_kind[e] == vfio::K_CHAR && vfio::ev_val[e] == '\n', "end of row"); ++e;
      }
  vf_assert(vfio::nev == e, "nothing else is printed");
  { const unsigned k = vf_nondet_u8() % vfio::MAXEV;
    if (k >= first && k < vfio::nev) vf_assert(vfio::ev_stream[k] == 1, "everything goes to the stream that was passed in"); }
  vf_observe(vfio::nev - first);
  vf_witness("dump produced");
}
