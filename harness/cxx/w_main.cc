// Wrapper TU: the exit path of the real dfs main() (C11: exit status 0 implies that standard output accepted the
// complete output; C07: main returns 0/1/2 and a non-zero status comes with a diagnostic on standard error).
// The real main() is compiled under the name dfs_real_main.  getopt_long is a contract stub that reports "no global
// options" (optind = 1, returns -1), check_consistency is the real one, the command looked up by the real
// CIReg::get_command is a harness command that writes to std::cout (which may start refusing writes at any insertion)
// and returns an arbitrary success flag or throws.
#include <getopt.h>
#include <unistd.h>
#include "prelude.h"
namespace DFS { bool verbose = false; }
#include "/repo/dfs/geometry.cc"
#include "/repo/dfs/stringutil.cc"
#include "/repo/dfs/exceptions.cc"
#include "/repo/dfs/driveselector.cc"
#include "/repo/dfs/storage.cc"
#include "/repo/dfs/commands.cc"

extern "C" int h_getopt_long(int, char *const *, const char *, const struct option *, int *)
{
  optind = 1;
  return -1;
}
// check_consistency() is main's self-test of the option table against the help texts (not part of the exit path): cut.
extern "C" bool h_check_ok(void) { return true; }
#define getopt_long h_getopt_long
#define main dfs_real_main
#include "/repo/dfs/main.cc"
#undef main
#undef getopt_long

namespace {
struct HCmd : public DFS::CommandInterface
{
  const std::string name() const override { return "cat"; }
  const std::string usage() const override { return "u"; }
  const std::string description() const override { return "d"; }
  bool invoke(const DFS::StorageConfiguration&, const DFS::DFSContext&, const std::vector<std::string>&) override
  {
    std::cout << "A";
    std::cout << "B\n";
    const unsigned char how = vf_nondet_u8();
    if (how == 2) throw DFS::BadFileSystem("bad");
    std::cout << "C\n";
    return how == 1;
  }
};
}

#ifndef MAIN_KNOWN
#define MAIN_KNOWN 1
#endif
extern "C" void h_main_exit(void)
{
  vfio::cout_fails_enabled = true;
#if MAIN_KNOWN
  DFS::CIReg reg(std::make_unique<HCmd>());
#endif
  char a0[] = "dfs", a1[] = "cat";
  char *argv[] = { a0, a1, nullptr };
  int rc = 99; bool escaped = false;
  try { rc = dfs_real_main(2, argv); } catch (...) { escaped = true; }
  vf_assert(!escaped, "no exception escapes main");
  vf_assert(rc == 0 || rc == 1 || rc == 2, "main returns 0, 1 or 2");
  if (rc == 0) vf_assert(!vfio::cout_failed_once, "exit status 0 implies that standard output accepted every write");
  bool diag = false;
  vf_assert(!vfio::overflow && vfio::nev <= 24, "event log within the harness bound");
  for (unsigned i = 0; i < vfio::nev && i < 24; ++i) if (vfio::ev_stream[i] == 2) diag = true;
  if (rc != 0) vf_assert(diag, "a non-zero exit status comes with a diagnostic on standard error");
  vf_observe(rc); vf_observe(vfio::cout_failed_once);
  if (rc == 0) vf_witness("command succeeded and all output was written");
  if (rc == 1 && vfio::cout_failed_once) vf_witness("stdout failure reported");
}
