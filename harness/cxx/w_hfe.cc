// Wrapper TU: HFE container (C05, C07, C17): copy_hfe opcode interpreter, header decoding,
// track table, LBA -> sector lookup of the adapter.
#include "prelude.h"
namespace DFS { bool verbose = false; }
#include "/repo/dfs/geometry.cc"
#include "/repo/dfs/stringutil.cc"
#include "/repo/dfs/exceptions.cc"
#include "/repo/dfs/driveselector.cc"
#include "/repo/dfs/fsp.cc"
#include "/repo/dfs/dfs_unused.cc"
#include "/repo/dfs/dfs_catalog.cc"
#include "/repo/dfs/opus_cat.cc"
#include "/repo/dfs/dfs_volume.cc"
#include "/repo/dfs/dfs_filesystem.cc"
#include "/repo/dfs/img_fileio.cc"
#include "/repo/dfs/storage.cc"
#include "/repo/dfs/identify.cc"
#include "/repo/dfs/crc16.cc"
#include "/repo/dfs/track.cc"
#include "/repo/dfs/hexdump.cc"
#include "/repo/dfs/img_hfe.cc"

namespace {
byte rev(byte b) { byte r = 0; for (int i = 0; i < 8; ++i) if (b & (1 << i)) r = static_cast<byte>(r | (0x80 >> i)); return r; }
}

// ---------------------------------------------------------------- C05-K2: copy_hfe
#ifndef HFE_BYTES
#define HFE_BYTES 5
#endif
extern "C" void h_copy_hfe(void)
{
  byte in[HFE_BYTES];
  for (unsigned i = 0; i < HFE_BYTES; ++i) in[i] = vf_nondet_u8();
  const unsigned n = vf_nondet_u8();
  vf_assume(n <= HFE_BYTES);
  const bool hfe3 = vf_nondet_u8() & 1;
  // SKIPBITS (0xF3): the HxC description is not available offline and the implementation's reading of it is
  // questionable (see DESIGN.md C05): outside the oracle's claim.
  if (hfe3) for (unsigned i = 0; i < HFE_BYTES; ++i) vf_assume(in[i] != 0xF3);
  std::vector<byte> out;
  out.reserve(HFE_BYTES + 1);      // as read_all_sectors() reserves; keeps the vector from re-allocating with a symbolic growth pattern
  bool threw = false;
  try { copy_hfe(hfe3, in, in + n, std::back_inserter(out)); }
  catch (InvalidHfeFile&) { threw = true; }
  // oracle (HFE v1: every byte is 8 cells; HFE v3: F0 NOP, F1 SETINDEX take no operand; F2 SETBITRATE consumes
  // one operand byte of ANY value; F4 RAND stands for one byte of unreadable cells; F5..FF are not defined)
  byte want[HFE_BYTES]; unsigned nw = 0; bool bad = false;
  for (unsigned i = 0; i < HFE_BYTES; ++i)
    {
      if (i >= n || bad) continue;
      const byte b = in[i];
      if (hfe3 && (b & 0xF0) == 0xF0)
        {
          if (b == 0xF0 || b == 0xF1) continue;
          if (b == 0xF2) { ++i; continue; }                  // operand skipped, whatever its value
          if (b == 0xF4) { ++i; if (i < n) want[nw++] = 0; continue; }
          ++i; if (i < n) bad = true; continue;               // undefined opcode: rejected when its operand arrives
        }
      want[nw++] = rev(b);
    }
  vf_assert(out.capacity() == HFE_BYTES + 1, "harness: the output vector never re-allocated (its growth path is cut from the encoding)");
  vf_assert(threw == bad, "an undefined HFEv3 opcode is rejected, everything else is accepted");
  if (!bad)
    {
      vf_assert(out.size() == nw, "every non-opcode byte yields exactly one byte of cells; opcodes and their operands yield none");
      for (unsigned i = 0; i < HFE_BYTES; ++i) if (i < nw && i < out.size()) vf_assert(out[i] == want[i], "cells are the bits of the byte, first cell = most significant bit");
    }
  vf_observe(out.size()); vf_observe(threw);
  if (!hfe3 && n == HFE_BYTES) vf_witness("HFE v1 block");
  if (hfe3 && nw == 2 && n == HFE_BYTES && !bad) vf_witness("HFE v3 block with opcodes");
  if (bad) vf_witness("undefined opcode");
}

// ---------------------------------------------------------------- C05-K7/C07: header and track table
extern "C" void h_hfe_header(void)
{
  std::vector<byte> h(512);
  for (unsigned i = 0; i < 26; ++i) h[i] = vf_nondet_u8();
  const picfileformatheader p = decode_header(h);
  vf_assert(p.number_of_track == h[9] && p.number_of_side == h[10] && p.track_encoding == h[11], "tracks, sides, encoding at offsets 9, 10, 11");
  vf_assert(p.track_list_offset == (h[18] | (h[19] << 8)), "track list offset: little-endian word at 0x12");
  vf_assert(p.track0s0_altencoding == h[22] && p.track0s0_encoding == h[23] && p.track0s1_altencoding == h[24] && p.track0s1_encoding == h[25], "track-0 alternative encodings at 0x16..0x19");
  byte lut[4]; for (int i = 0; i < 4; ++i) lut[i] = vf_nondet_u8();
  const PicTrack t(lut);
  const unsigned len = lut[2] | (lut[3] << 8);
  vf_assert(t.offset() == (lut[0] | (lut[1] << 8)), "track offset in 512-byte blocks: little-endian word");
  vf_assert(t.track_len() == ((len + 511u) / 512u) * 512u, "track length is rounded up to whole 512-byte blocks");
  vf_observe(t.track_len());
  if (len % 512 == 1) vf_witness("length needing round-up");
}

// ---------------------------------------------------------------- C05-K8 / C06-G4 / C17: HFE adapter lookup
extern "C" void h_hfe_adapter(void)
{
  constexpr unsigned CYL = 2, SPT = 2;
#ifndef HFE_DROP
#define HFE_DROP 4
#endif
  const unsigned present = 0x0F & ~(1u << HFE_DROP);      // constant shape per query (4 = nothing dropped)
  const unsigned side = vf_nondet_u8() & 1;
  std::vector<Track::Sector> sectors;
  for (unsigned c = 0; c < CYL; ++c)
    for (unsigned r = 0; r < SPT; ++r)
      if (present & (1u << (c * SPT + r)))
        {
          Track::Sector s;
          s.address.cylinder = static_cast<unsigned char>(c); s.address.head = static_cast<unsigned char>(side); s.address.record = static_cast<unsigned char>(r);
          s.data.assign(4, static_cast<unsigned char>(0x10 * c + r));   // 4 bytes stand for the 256
          sectors.push_back(s);
        }
  HfeFile::DataAccessAdapter acc(nullptr, DFS::Geometry(CYL, 1, SPT, DFS::Encoding::FM), side, sectors);
  const unsigned long lba = vf_nondet_u8();
  auto got = acc.read_block(lba);
  if (got)
    {
      vf_assert(lba < CYL * SPT, "no sector beyond the surface");
      vf_assert((*got)[0] == 0x10 * (lba / SPT) + lba % SPT, "the data returned are those recorded under exactly the address (lba div spt, lba mod spt) on this side");
    }
  else if (lba < sectors.size())
    vf_assert(!(present & (1u << lba)), "a sector that was decoded is found, on either side of the disc");
  vf_observe(got.has_value()); if (got) vf_observe((*got)[0]);
  if (got && side == 1) vf_witness("sector read from side 1");
  if (!got && lba < CYL * SPT && HFE_DROP < 4) vf_witness("read of a dropped sector fails");
  if (got && HFE_DROP == 4 && lba == 3) vf_witness("last sector of an intact surface");
}

// ---------------------------------------------------------------- C18: copy_hfe under --verbose (2-safety)
#ifndef VB
#define VB 2
#endif
extern "C" void h_verbose_copy_hfe(void)
{
  byte in[VB];
  for (unsigned i = 0; i < VB; ++i) in[i] = vf_nondet_u8();
  const unsigned n = vf_nondet_u8(); vf_assume(n <= VB);
  std::vector<byte> quiet, loud; quiet.reserve(VB + 1); loud.reserve(VB + 1);
  bool tq = false, tl = false;
  DFS::verbose = false;
  try { copy_hfe(true, in, in + n, std::back_inserter(quiet)); } catch (InvalidHfeFile&) { tq = true; }
  const unsigned ev_quiet = vfio::nev;
  for (unsigned i = 0; i < 16; ++i) if (i < ev_quiet) vf_assert(vfio::ev_stream[i] == 2, "warnings go to standard error");
  DFS::verbose = true;
  try { copy_hfe(true, in, in + n, std::back_inserter(loud)); } catch (InvalidHfeFile&) { tl = true; }
  DFS::verbose = false;
  vf_assert(tq == tl, "--verbose does not change whether the track is accepted");
  vf_assert(quiet.size() == loud.size(), "--verbose does not change the decoded cells (count)");
  for (unsigned i = 0; i < VB; ++i) if (i < quiet.size() && i < loud.size()) vf_assert(quiet[i] == loud[i], "--verbose does not change the decoded cells");
  vf_assert(quiet.capacity() == VB + 1 && loud.capacity() == VB + 1, "harness: output vectors never re-allocated");
  { const unsigned k = vf_nondet_u8() % vfio::MAXEV;     // any event (symbolic index instead of a 192-iteration scan)
    if (k < vfio::nev) vf_assert(vfio::ev_stream[k] == 2, "everything --verbose adds goes to standard error"); }
  vf_assert(!vfio::overflow, "event log large enough");
  vf_observe(quiet.size());
  if (vfio::nev > ev_quiet + 1) vf_witness("verbose opcode trace printed");
}

// ---------------------------------------------------------------- C18 / C07: the --verbose header dump
// operator<<(ostream&, picfileformatheader) on arbitrary header bytes: the 8-byte signature field is not NUL-terminated,
// so nothing may be streamed as a C string from inside the header object.
extern "C" void h_hfe_header_dump(void)
{
  std::vector<byte> h(512);
  for (unsigned i = 0; i < 26; ++i) h[i] = vf_nondet_u8();
  const picfileformatheader p = decode_header(h);
  const unsigned before = vfio::nev;
  std::cerr << p;
  const char *base = reinterpret_cast<const char *>(&p);
  bool cstring_from_header = false, sig_written = false;
  vf_assert(vfio::nev <= 64, "harness: the dump is at most 64 stream events");
  for (unsigned i = 0; i < 64; ++i)
    if (i >= before && i < vfio::nev)
      {
        const char *q = static_cast<const char *>(vfio::ev_ptr[i]);
        bool inside = false;                    // equality tests only: relational comparison of pointers to different objects is not defined
        for (unsigned k = 0; k < sizeof p; ++k) if (q == base + k) inside = true;
        if (vfio::ev_kind[i] == vfio::K_TEXT && vfio::ev_val[i] == 0 && inside) cstring_from_header = true;
        if (vfio::ev_kind[i] == vfio::K_WRITE && q == reinterpret_cast<const char *>(p.HEADERSIGNATURE) && vfio::ev_val[i] == 8) sig_written = true;
        vf_assert(vfio::ev_stream[i] == 2, "the header dump goes to the stream it was given (standard error)");
      }
  vf_assert(!cstring_from_header, "no field of the header is streamed as a NUL-terminated string (the signature has no terminator)");
  // (how the 8 signature bytes are written -- write(), a std::string, eight characters -- is the implementation's choice and not asserted)
  vf_observe(sig_written);
  vf_observe(vfio::nev - before);
  if (h[0] != 0 && h[7] != 0 && h[8] != 0) vf_witness("signature without any zero byte, followed by a non-zero byte");
}

// ---------------------------------------------------------------- C07: degenerate HFE headers
namespace {
struct HeaderOnlyFile : public DFS::FileAccess
{
  byte hdr[26];
  std::vector<byte> read(unsigned long offset, unsigned long count) override
  {
    std::vector<byte> v(512);
    (void)count;
    if (offset == 0) for (unsigned i = 0; i < 26; ++i) v[i] = hdr[i];
    return v;
  }
};
}
extern "C" void h_hfe_ctor_degenerate(void)
{
  HeaderOnlyFile *f = new HeaderOnlyFile;
  for (unsigned i = 0; i < 26; ++i) f->hdr[i] = vf_nondet_u8();
  const char sig[9] = "HXCPICFE";
  for (unsigned i = 0; i < 8; ++i) f->hdr[i] = static_cast<byte>(sig[i]);
  vf_assume(f->hdr[9] == 0 || f->hdr[10] == 0);            // no tracks, or no sides: nothing can be read from such an image
  bool threw = false, other = false;
  try { HfeFile img(std::string("x.hfe"), false, std::unique_ptr<DFS::FileAccess>(f)); }
  catch (DFS::BaseException&) { threw = true; }
  catch (std::exception&) { other = true; }
  vf_assert(threw && !other, "an HFE header announcing no tracks or no sides is rejected with a dfs exception");
  vf_observe(threw);
  if (f->hdr[9] == 0 && f->hdr[10] == 2) vf_witness("no tracks, two sides");
  if (f->hdr[9] != 0) vf_witness("tracks but no sides");
}
