// A small capture model of the iostream layer.  The wrapper TUs compile the
// REAL dfs/*.cc against this model instead of libstdc++'s <iostream>/<sstream>/
// <fstream>/<iomanip> (the prelude renames the identifiers with macros AFTER all
// standard headers have been included, so libstdc++ itself is untouched).
//
// Why: formatting/locale internals of libstdc++ are outside every property, but
// the properties do talk about WHICH stream text goes to, which numbers are
// printed with which base/width/fill, and whether stream failures are noticed.
// The model keeps exactly that:
//   * std::cout / std::cerr: every insertion appends an event
//       (stream, kind, value, base, width, fill, uppercase) to a global log;
//   * std::ostringstream: real text is built (decimal/hex, width, fill, left/right)
//     because the code uses .str();
//   * std::ofstream / std::ifstream: nondeterministic success/failure, writes are
//     logged with the file's path id; failure is sticky (failbit), as the standard says.
// Everything here is part of the trusted base and is listed in the evidence.
#ifndef VF_IOMODEL_H
#define VF_IOMODEL_H
#include <string>
#include <exception>
#include "vf.h"

namespace vfio {
enum Kind { K_TEXT = 1, K_CHAR, K_NUM, K_WRITE, K_FLUSH, K_OPEN, K_CLOSE };
constexpr unsigned MAXEV = 192;
// parallel arrays (cheap for CBMC)
extern unsigned char ev_stream[MAXEV], ev_kind[MAXEV], ev_base[MAXEV], ev_fill[MAXEV], ev_upper[MAXEV], ev_left[MAXEV];
extern unsigned long ev_val[MAXEV];
extern int ev_width[MAXEV];
extern const void *ev_ptr[MAXEV];
extern unsigned nev;
extern bool overflow;
extern bool cout_fails_enabled;      // C11: std::cout may start failing
extern bool cout_failed_once;
inline void log(unsigned char stream, unsigned char kind, unsigned long val, const void *ptr,
                unsigned char base, int width, char fill, bool upper, bool left)
{
  if (nev < MAXEV)
    {
      ev_stream[nev] = stream; ev_kind[nev] = kind; ev_val[nev] = val; ev_ptr[nev] = ptr;
      ev_base[nev] = base; ev_width[nev] = width; ev_fill[nev] = static_cast<unsigned char>(fill);
      ev_upper[nev] = upper; ev_left[nev] = left;
    }
  else overflow = true;
  ++nev;
}
}  // namespace vfio

namespace std {

struct vf_setw { int n; };
struct vf_setfill { char c; };
struct vf_setbase { int b; };
inline vf_setw setw_model(int n) { return vf_setw{n}; }
inline vf_setfill setfill_model(char c) { return vf_setfill{c}; }
inline vf_setbase setbase_model(int b) { return vf_setbase{b}; }

class vf_locale
{
public:
  vf_locale() {}
  template <class Facet> vf_locale(const vf_locale&, Facet *f) { (void)f; }   // facet ownership: model leaks it
};
template <class C> struct vf_numpunct
{
  virtual ~vf_numpunct() {}
  virtual C do_thousands_sep() const { return ','; }
  virtual std::string do_grouping() const { return ""; }
};

class vf_ostream
{
public:
  typedef unsigned fmtflags;
  typedef long streamsize;
  static constexpr fmtflags f_hex = 1, f_upper = 2, f_left = 4, f_boolalpha = 8, f_showbase = 16;
  static constexpr fmtflags binary = 1, trunc = 2, out = 4, in = 8, app = 16;
  static constexpr fmtflags badbit = 1, failbit = 2, eofbit = 4;
  static constexpr int beg = 0;

  constexpr explicit vf_ostream(unsigned char id) : id_(id) {}    // constexpr: std::cout/std::cerr models are constant-initialised (no global constructor needed)
  virtual ~vf_ostream() {}

  // state
  fmtflags flags() const { return flags_; }
  fmtflags flags(fmtflags f) { fmtflags o = flags_; flags_ = f; return o; }
  bool good() const { return !fail_; }
  bool fail() const { return fail_; }
  bool operator!() const { return fail_; }
  explicit operator bool() const { return !fail_; }
  void clear() { fail_ = false; }
  vf_locale getloc() const { return vf_locale(); }
  vf_locale imbue(const vf_locale&) { return vf_locale(); }
  vf_ostream& flush() { emit(vfio::K_FLUSH, 0, nullptr); return *this; }
  vf_ostream& put(char c) { return *this << c; }
  vf_ostream& write(const char *p, streamsize n)
  {
    if (sink_) sink_->append(p, static_cast<size_t>(n));
    emit(vfio::K_WRITE, static_cast<unsigned long>(n), p);
    return *this;
  }

  class sentry
  {
  public:
    explicit sentry(vf_ostream& os) : ok_(os.good()) {}
    explicit operator bool() const { return ok_; }
  private:
    bool ok_;
  };

  // insertions
  vf_ostream& operator<<(const char *s) { text(s, nullptr); return *this; }
  vf_ostream& operator<<(const unsigned char *s) { text(reinterpret_cast<const char *>(s), nullptr); return *this; }
  vf_ostream& operator<<(const std::string& s) { text(nullptr, &s); return *this; }
  vf_ostream& operator<<(char c) { chr(c); return *this; }
  vf_ostream& operator<<(unsigned char c) { chr(static_cast<char>(c)); return *this; }
  vf_ostream& operator<<(signed char c) { chr(static_cast<char>(c)); return *this; }
  vf_ostream& operator<<(bool b) { num(b, false); return *this; }
  vf_ostream& operator<<(short v) { num(static_cast<unsigned long>(static_cast<long>(v)), v < 0); return *this; }
  vf_ostream& operator<<(unsigned short v) { num(v, false); return *this; }
  vf_ostream& operator<<(int v) { num(static_cast<unsigned long>(static_cast<long>(v)), v < 0); return *this; }
  vf_ostream& operator<<(unsigned v) { num(v, false); return *this; }
  vf_ostream& operator<<(long v) { num(static_cast<unsigned long>(v), v < 0); return *this; }
  vf_ostream& operator<<(unsigned long v) { num(v, false); return *this; }
  vf_ostream& operator<<(long long v) { num(static_cast<unsigned long>(v), v < 0); return *this; }
  vf_ostream& operator<<(unsigned long long v) { num(static_cast<unsigned long>(v), false); return *this; }
  vf_ostream& operator<<(vf_setw w) { width_ = w.n; return *this; }
  vf_ostream& operator<<(vf_setfill f) { fill_ = f.c; return *this; }
  vf_ostream& operator<<(vf_setbase b) { if (b.b == 16) flags_ |= f_hex; else flags_ &= ~f_hex; return *this; }
  vf_ostream& operator<<(vf_ostream& (*m)(vf_ostream&)) { return m(*this); }

  // used by the manipulators below
  fmtflags flags_ = 0;
  int width_ = 0;
  char fill_ = ' ';
  bool fail_ = false;
  unsigned char id_;
  std::string *sink_ = nullptr;     // ostringstream text

protected:
  // C11: std::cout may start refusing writes at a nondeterministic insertion
  void maybe_fail()
  {
    if (id_ == 1 && vfio::cout_fails_enabled && !fail_ && (vf_nondet_u8() & 1)) { fail_ = true; vfio::cout_failed_once = true; }
  }
  void emit(unsigned char kind, unsigned long val, const void *ptr)
  {
    maybe_fail();
    if (!sink_)
      vfio::log(id_, kind, val, ptr, (flags_ & f_hex) ? 16 : 10, width_, fill_, (flags_ & f_upper) != 0, (flags_ & f_left) != 0);
  }
  void pad(size_t len)
  {
    if (sink_ && width_ > 0 && static_cast<size_t>(width_) > len) sink_->append(static_cast<size_t>(width_) - len, fill_);
  }
  void text(const char *s, const std::string *str)
  {
    if (fail_) { width_ = 0; return; }
    if (sink_)
      {
        size_t len = str ? str->size() : strlen(s);
        if (!(flags_ & f_left)) pad(len);
        if (str) sink_->append(*str); else sink_->append(s);
        if (flags_ & f_left) pad(len);
      }
    emit(vfio::K_TEXT, str ? str->size() : 0, str ? static_cast<const void *>(str->data()) : static_cast<const void *>(s));
    width_ = 0;
  }
  void chr(char c)
  {
    if (fail_) { width_ = 0; return; }
    if (sink_) { if (!(flags_ & f_left)) pad(1); sink_->push_back(c); if (flags_ & f_left) pad(1); }
    emit(vfio::K_CHAR, static_cast<unsigned char>(c), nullptr);
    width_ = 0;
  }
  void num(unsigned long v, bool negative)
  {
    if (fail_) { width_ = 0; return; }
    if (sink_)
      {
        char tmp[24]; unsigned n = 0;
        const bool hexa = (flags_ & f_hex) != 0;
        unsigned long mag = (negative && !hexa) ? (0ul - v) : v;
        do { unsigned d = static_cast<unsigned>(hexa ? (mag & 15) : (mag % 10)); tmp[n++] = static_cast<char>(d < 10 ? '0' + d : ((flags_ & f_upper) ? 'A' : 'a') + d - 10); mag = hexa ? (mag >> 4) : (mag / 10); } while (mag && n < 22);
        if (negative && !hexa) tmp[n++] = '-';
        if (!(flags_ & f_left)) pad(n);
        while (n) sink_->push_back(tmp[--n]);
        // (left-justified numbers are not used by the code base with string streams)
      }
    emit(vfio::K_NUM, v, nullptr);
    width_ = 0;
  }
};

inline vf_ostream& vf_hex(vf_ostream& os) { os.flags_ |= vf_ostream::f_hex; return os; }
inline vf_ostream& vf_dec(vf_ostream& os) { os.flags_ &= ~vf_ostream::f_hex; return os; }
inline vf_ostream& vf_uppercase(vf_ostream& os) { os.flags_ |= vf_ostream::f_upper; return os; }
inline vf_ostream& vf_noshowbase(vf_ostream& os) { os.flags_ &= ~vf_ostream::f_showbase; return os; }
inline vf_ostream& vf_left(vf_ostream& os) { os.flags_ |= vf_ostream::f_left; return os; }
inline vf_ostream& vf_right(vf_ostream& os) { os.flags_ &= ~vf_ostream::f_left; return os; }
inline vf_ostream& vf_boolalpha(vf_ostream& os) { os.flags_ |= vf_ostream::f_boolalpha; return os; }
inline vf_ostream& vf_endl(vf_ostream& os) { os << '\n'; return os.flush(); }

class vf_ostringstream : public vf_ostream
{
public:
  vf_ostringstream() : vf_ostream(3) { sink_ = &text_; }
  std::string str() const { return text_; }
private:
  std::string text_;
};

// Host files.  Opening and every write may fail (nondeterministically); failure is sticky.
class vf_ofstream : public vf_ostream
{
public:
  static unsigned opened;            // how many output files were opened
  static const char *last_path;
  static std::string paths[4];
  static bool failed_any;            // some open / write / close of some output file failed
  vf_ofstream(const std::string& path, fmtflags mode = out) : vf_ostream(4)
  {
    (void)mode;
    if (opened < 4) paths[opened] = path;
    ++opened;
    vfio::log(4, vfio::K_OPEN, opened, nullptr, 0, 0, 0, false, false);
    if (vf_nondet_u8() & 1) { fail_ = true; failed_any = true; }
  }
  vf_ofstream& write(const char *p, streamsize n)
  {
    if (!fail_ && (vf_nondet_u8() & 1)) { fail_ = true; failed_any = true; }          // device refuses the write
    if (!fail_) vfio::log(4, vfio::K_WRITE, static_cast<unsigned long>(n), p, 0, 0, 0, false, false);
    return *this;
  }
  void close()
  {
    if (!fail_ && (vf_nondet_u8() & 1)) { fail_ = true; failed_any = true; }          // buffered data lost at close
    vfio::log(4, vfio::K_CLOSE, fail_, nullptr, 0, 0, 0, false, false);
  }
};

class vf_ifstream
{
public:
  typedef unsigned fmtflags;
  static constexpr fmtflags binary = 1, badbit = 1, failbit = 2;
  static constexpr int beg = 0;
  class failure : public std::exception { public: const char *what() const noexcept override { return "ios failure"; } };
  vf_ifstream(const std::string&, fmtflags) : fail_((vf_nondet_u8() & 1) != 0) {}
  bool fail() const { return fail_; }
  bool good() const { return !fail_; }
  bool operator!() const { return fail_; }
  explicit operator bool() const { return !fail_; }
  void exceptions(fmtflags) {}
  void clear() { fail_ = false; }
  vf_ifstream& seekg(unsigned long, int) { if (vf_nondet_u8() & 1) fail_ = true; return *this; }
  vf_ifstream& read(char *p, long n) { got_ = vf_nondet_u32(); if (got_ > n) got_ = n; for (long i = 0; i < got_ && i < 512; ++i) p[i] = static_cast<char>(vf_nondet_u8()); if (got_ < n) fail_ = true; return *this; }
  long gcount() const { return got_; }
private:
  bool fail_;
  long got_ = 0;
};

extern vf_ostream vf_cout, vf_cerr;

}  // namespace std

#ifdef VF_IOMODEL_DEFINE
namespace vfio {
unsigned char ev_stream[MAXEV], ev_kind[MAXEV], ev_base[MAXEV], ev_fill[MAXEV], ev_upper[MAXEV], ev_left[MAXEV];
unsigned long ev_val[MAXEV];
int ev_width[MAXEV];
const void *ev_ptr[MAXEV];
unsigned nev;
bool overflow;
bool cout_fails_enabled, cout_failed_once;
}
namespace std {
vf_ostream vf_cout(1), vf_cerr(2);
unsigned vf_ofstream::opened;
const char *vf_ofstream::last_path;
std::string vf_ofstream::paths[4];
bool vf_ofstream::failed_any;
}
#endif

// ---- rename the iostream identifiers for everything that follows (the real dfs sources)
#define ostream vf_ostream
#define ostringstream vf_ostringstream
#define ofstream vf_ofstream
#define ifstream vf_ifstream
#define cout vf_cout
#define cerr vf_cerr
#define setw setw_model
#define setfill setfill_model
#define setbase setbase_model
#define hex vf_hex
#define dec vf_dec
#define uppercase vf_uppercase
#define noshowbase vf_noshowbase
#define left vf_left
#define right vf_right
#define boolalpha vf_boolalpha
#define endl vf_endl
#define locale vf_locale
#define numpunct vf_numpunct
#endif
