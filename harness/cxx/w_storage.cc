// Wrapper TU: drive-number arithmetic and slot allocation (C16).
#include "prelude.h"
namespace DFS { bool verbose = false; }
#include "/repo/dfs/driveselector.cc"
#include "/repo/dfs/storage.cc"

using DFS::drive_number;
namespace DFS { bool check_sequence_fits(DFS::drive_number i, const std::vector<DriveConfig>::size_type to_do, std::function<bool(DFS::drive_number)> occupied); }

// ---------------------------------------------------------------- C16-A1
extern "C" void h_surface_arith(void)
{
  const unsigned n = vf_nondet_u32();
  const drive_number d(n);
  const unsigned opp = d.opposite_surface().surface();
  // drives come in groups of four: 0/2 and 1/3 are the two sides of the two physical drives
  vf_assert(opp / 4 == n / 4, "the opposite surface is in the same group of four");
  vf_assert(opp % 2 == n % 2 && opp != n, "the opposite surface is the other side of the same physical drive");
  vf_assert(drive_number(opp).opposite_surface().surface() == n, "opposite_surface is an involution");
  bool threw = false; unsigned nxt = 0;
  try { nxt = drive_number::corresponding_side_of_next_device(d).surface(); } catch (std::out_of_range&) { threw = true; }
  if (n <= 0xFFFFFFFFu - 2) vf_assert(!threw && nxt == n + 2, "the same side of the next device is two numbers on");
  else vf_assert(threw, "no wrap-around at the top of the range");
  bool t2 = false; unsigned nx = 0;
  try { nx = d.next().surface(); } catch (std::out_of_range&) { t2 = true; }
  vf_assert(n == 0xFFFFFFFFu ? t2 : (!t2 && nx == n + 1), "next() is n+1 and fails at the last number");
  vf_observe(opp); vf_observe(threw); vf_observe(nxt);
  if (n % 4 == 3) vf_witness("surface 3 of a group");
  if (threw) vf_witness("overflow detected");
}

// ---------------------------------------------------------------- C16-A2
// check_sequence_fits(start, k, occupied): true iff the k slots start, start+2, ... are free and the
// opposite side of `start` is free (so a new image never lands on the back of somebody else's disc).
extern "C" void h_sequence_fits(void)
{
  const unsigned start = vf_nondet_u8() % 16;
  const unsigned k = vf_nondet_u8();
  vf_assume(k >= 1 && k <= 3);
  const unsigned occ = vf_nondet_u32() & 0xFFFFFF;          // occupancy of drives 0..23
  unsigned calls = 0;
  std::function<bool(drive_number)> occupied = [&](drive_number d) -> bool
    {
      ++calls;
      return d.surface() < 24 ? ((occ >> d.surface()) & 1) != 0 : false;
    };
  const bool fits = DFS::check_sequence_fits(drive_number(start), k, occupied);
  bool want = true;
  for (unsigned j = 0; j < 3; ++j)
    if (j < k && ((occ >> (start + 2 * j)) & 1)) want = false;               // every slot it will take must be free
  const unsigned opp = (start % 4 < 2) ? start + 2 : start - 2;
  if ((occ >> opp) & 1) want = false;                                        // never the back of an occupied drive
  vf_assert(fits == want, "fits iff all k slots and the opposite surface of the first are free");
  vf_observe(fits); vf_observe(calls);
  if (fits && k == 2 && start % 4 >= 2) vf_witness("two-sided image starting on a side-1 number");
  if (!fits && k == 1) vf_witness("single-sided image refused");
}
