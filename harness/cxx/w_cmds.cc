// Wrapper TU ("rung 5"): whole command objects invoked on a StorageConfiguration that holds one
// in-memory drive with a symbolic catalogue (C14; also exercises mount / FileSystem / Volume / Catalog).
#include "prelude.h"
namespace DFS { bool verbose = false; }
#include "/repo/dfs/geometry.cc"
#include "/repo/dfs/stringutil.cc"
#include "/repo/dfs/exceptions.cc"
#include "/repo/dfs/driveselector.cc"
#include "/repo/dfs/fsp.cc"
#include "/repo/dfs/dfs_unused.cc"
#include "/repo/dfs/dfs_catalog.cc"
#include "/repo/dfs/opus_cat.cc"
#include "/repo/dfs/dfs_volume.cc"
#include "/repo/dfs/dfs_filesystem.cc"
#include "/repo/dfs/img_fileio.cc"
#include "/repo/dfs/storage.cc"
#include "/repo/dfs/commands.cc"
#include "/repo/dfs/cmd_free.cc"
#include "/repo/dfs/cmd_space.cc"

#ifndef CMD_ENTRIES
#define CMD_ENTRIES 2
#endif
// CMD_WATFORD: the disc is a Watford DFS disc (62-file catalogue in sectors 0-3; the second half, sectors 2-3, is empty)
#ifdef CMD_WATFORD
#define CAT_SECTORS 4u
#define CAT_SLOTS 62u
#define CMD_FORMAT DFS::Format::WDFS
#else
#define CAT_SECTORS 2u
#define CAT_SLOTS 31u
#define CMD_FORMAT DFS::Format::DFS
#endif

namespace {
struct MemDrive : public DFS::AbstractDrive
{
  DFS::SectorBuffer s0, s1;
  unsigned total;
  std::optional<DFS::SectorBuffer> read_block(unsigned long lba) override
  {
    if (lba >= total) return std::nullopt;
    if (lba == 0) return s0;
    if (lba == 1) return s1;
    DFS::SectorBuffer b = DFS::SectorBuffer();
#ifdef CMD_WATFORD
    if (lba == 2) for (unsigned i = 0; i < 8; ++i) b[i] = 0xAA;           // Watford recognition bytes; sector 3: no entries, same total
    if (lba == 3) { b[6] = s1[6] & 3; b[7] = s1[7]; }
#endif
    return b;
  }
  DFS::Geometry geometry() const override { return DFS::Geometry(80, 1, 10, DFS::Encoding::FM); }
  std::string description() const override { return std::string("mem"); }
};

struct Disc
{
  unsigned n;                         // entries
  unsigned start[CMD_ENTRIES], len[CMD_ENTRIES], secs[CMD_ENTRIES];
  unsigned total;
};

// A well-formed Acorn DFS catalogue of <= CMD_ENTRIES files: entries in descending start order (as DFS keeps
// them), each file inside the disc and after the catalogue, no two files overlapping.
void make_disc(MemDrive& d, Disc& k)
{
  d.s0 = DFS::SectorBuffer(); d.s1 = DFS::SectorBuffer();
  k.n = CMD_ENTRIES;        // the number of entries is a constant per query: vectors of symbolic length are out of reach (measured: out of memory)
  k.total = vf_nondet_u16(); vf_assume(k.total >= CAT_SECTORS + 1 && k.total <= 800);
  d.total = 800;
  d.s1[5] = static_cast<DFS::byte>(8 * k.n);
  d.s1[6] = static_cast<DFS::byte>((k.total >> 8) & 3);
  d.s1[7] = static_cast<DFS::byte>(k.total & 0xFF);
  unsigned limit = k.total;             // next file must end at or before this sector
  for (unsigned i = 0; i < CMD_ENTRIES; ++i)
    {
      k.start[i] = vf_nondet_u16() & 0x3FF; k.len[i] = vf_nondet_u32() & 0x3FFFF;
      k.secs[i] = (k.len[i] + 255) / 256;
      if (i < k.n)
        {
          vf_assume(k.start[i] >= CAT_SECTORS && k.start[i] + k.secs[i] <= limit);
#ifdef KF_NO_EMPTY_FILES
          vf_assume(k.len[i] != 0);
#endif
          limit = k.start[i];
          const unsigned off = 8 + 8 * i;
          d.s0[off] = 'F'; d.s0[off + 1] = static_cast<DFS::byte>('0' + i); for (unsigned j = 2; j < 7; ++j) d.s0[off + j] = ' '; d.s0[off + 7] = '$';
          d.s1[off + 4] = static_cast<DFS::byte>(k.len[i] & 0xFF); d.s1[off + 5] = static_cast<DFS::byte>((k.len[i] >> 8) & 0xFF);
          d.s1[off + 6] = static_cast<DFS::byte>(((k.start[i] >> 8) & 3) | (((k.len[i] >> 16) & 3) << 4));
          d.s1[off + 7] = static_cast<DFS::byte>(k.start[i] & 0xFF);
        }
    }
}

// the numbers printed on standard output, in order (one pass over the event log)
constexpr unsigned MAXNUM = 10;
unsigned long num_val[MAXNUM]; unsigned num_base[MAXNUM]; unsigned nnum;
void collect_nums()
{
  nnum = 0;
  for (unsigned i = 0; i < vfio::MAXEV; ++i)
    if (i < vfio::nev && vfio::ev_stream[i] == 1 && vfio::ev_kind[i] == vfio::K_NUM)
      {
        if (nnum < MAXNUM) { num_val[nnum] = vfio::ev_val[i]; num_base[nnum] = vfio::ev_base[i]; }
        ++nnum;
      }
}
bool cout_num(unsigned k, unsigned long *val, unsigned *base)
{
  if (k >= nnum || k >= MAXNUM) return false;
  *val = num_val[k]; *base = num_base[k];
  return true;
}
}

// StorageConfiguration::mount is replaced (ir2c --replace) by this stub: the real mount path (two std::maps, a cache,
// FileSystem with its volume map) made the query run out of memory; what the commands need from it is a Volume
// on the drive, which the stub builds with the REAL Volume/Catalog constructors.
static MemDrive *the_drive;
std::optional<DFS::VolumeMountResult> stub_mount(const DFS::StorageConfiguration *, const DFS::VolumeSelector&, std::string&)
{
  DFS::Volume *v = new DFS::Volume(CMD_FORMAT, 0, 0, 800, *the_drive);
  return DFS::VolumeMountResult(std::unique_ptr<DFS::FileSystem>(), v);
}

// ---------------------------------------------------------------- C14-S2: free
extern "C" void h_cmd_free(void)
{
  MemDrive drive; Disc k;
  make_disc(drive, k);
  DFS::StorageConfiguration storage;
  the_drive = &drive;
#ifdef VF_NATIVE
  // the native build (replay / translator validation) has no call redirection: attach the drive for real
  { std::vector<std::optional<DFS::DriveConfig>> drives; drives.emplace_back(DFS::DriveConfig(CMD_FORMAT, &drive)); storage.connect_drives(drives, DFS::DriveAllocation::FIRST); }
#endif
  DFS::DFSContext ctx('$', DFS::VolumeSelector(0));
  CommandFree cmd;
  std::vector<std::string> args; args.push_back("free");
  bool ok = false, threw = false;
  try { ok = cmd.invoke(storage, ctx, args); } catch (std::exception&) { threw = true; }
  vf_assert(!threw && ok, "free succeeds on a well-formed disc");
  collect_nums();
  // expected figures
  unsigned used = CAT_SECTORS;
  for (unsigned i = 0; i < CMD_ENTRIES; ++i) if (i < k.n && k.start[i] + k.secs[i] > used) used = k.start[i] + k.secs[i];
  const unsigned long want[6] = { CAT_SLOTS - k.n, k.total - used, (k.total - used) * 256ul, k.n, used, used * 256ul };
  for (unsigned j = 0; j < 6; ++j)
    {
      unsigned long v = 0; unsigned base = 0;
      const bool have = cout_num(j, &v, &base);
      vf_assert(have && v == want[j], "free prints free files, free sectors, free bytes, used files, used sectors, used bytes");
      if (have) vf_assert(base == ((j % 3 == 1) ? 16u : 10u), "sector counts in hexadecimal, files and bytes in decimal");
    }
  vf_observe(used); vf_observe(k.n);
#if CMD_ENTRIES > 0
  if (used == k.total) vf_witness("full disc");
  if (used < k.total && k.len[0] == 0) vf_witness("zero-length file last on the disc");
#else
  vf_witness("empty disc");
#endif
}

// ---------------------------------------------------------------- C14-S3: space
extern "C" void h_cmd_space(void)
{
  MemDrive drive; Disc k;
  make_disc(drive, k);
  DFS::StorageConfiguration storage;
  the_drive = &drive;
#ifdef VF_NATIVE
  // the native build (replay / translator validation) has no call redirection: attach the drive for real
  { std::vector<std::optional<DFS::DriveConfig>> drives; drives.emplace_back(DFS::DriveConfig(CMD_FORMAT, &drive)); storage.connect_drives(drives, DFS::DriveAllocation::FIRST); }
#endif
  DFS::DFSContext ctx('$', DFS::VolumeSelector(0));
  CommandSpace cmd;
  std::vector<std::string> args; args.push_back("space");
  bool ok = false, threw = false;
  try { ok = cmd.invoke(storage, ctx, args); } catch (std::exception&) { threw = true; }
  vf_assert(!threw && ok, "space succeeds on a well-formed disc");
  collect_nums();
  // expected: the runs of unallocated sectors in ascending disc order: catalogue..lowest file, between files, last file..end
  unsigned gaps[CMD_ENTRIES + 1]; unsigned ng = 0; unsigned long sum = 0;
  unsigned pos = CAT_SECTORS;
  for (unsigned j = 0; j < CMD_ENTRIES; ++j)
    {
      const unsigned i = CMD_ENTRIES - 1 - j;           // catalogue order is descending by start sector
      if (i < k.n)
        {
          if (k.start[i] > pos) { gaps[ng++] = k.start[i] - pos; sum += k.start[i] - pos; }
          pos = k.start[i] + k.secs[i];
        }
    }
  if (k.total > pos) { gaps[ng++] = k.total - pos; sum += k.total - pos; }
  unsigned long v = 0; unsigned base = 0;
  vf_assert(cout_num(0, &v, &base) && v == 0, "the heading names the drive");
  for (unsigned j = 0; j < CMD_ENTRIES + 1; ++j)
    if (j < ng)
      vf_assert(cout_num(1 + j, &v, &base) && v == gaps[j] && base == 16, "each maximal run of free sectors is listed once, in disc order, in hexadecimal");
  vf_assert(cout_num(1 + ng, &v, &base) && v == sum, "the total is the sum of the runs = total sectors - catalogue sectors - sectors of all files");
  vf_assert(!cout_num(2 + ng, &v, &base), "nothing else is listed");
  vf_observe(ng); vf_observe(sum);
  if (ng == CMD_ENTRIES + 1) vf_witness("gap before, between and after the files");
#if CMD_ENTRIES > 0
  if (ng == 0) vf_witness("no free space at all");
#endif
}

// ---------------------------------------------------------------- C14-S4: sector map (Catalog::map_sectors)
// SectorMap::add_catalog_sector / add_file_sectors are replaced (ir2c --replace) by these recorders: the real ones
// insert one std::map node per sector.  What is checked is which sector ranges the REAL Catalog::map_sectors
// attributes to the catalogue and to each file.
namespace maprec {
unsigned ncat; unsigned long cat[6];
unsigned nfile; unsigned long fbegin[CMD_ENTRIES + 1], fend[CMD_ENTRIES + 1]; char fname1[CMD_ENTRIES + 1];
void stub_add_catalog_sector(DFS::SectorMap *, DFS::sector_count_type where, const DFS::VolumeSelector&)
{ if (ncat < 6) cat[ncat] = where; ++ncat; }
void stub_add_file_sectors(DFS::SectorMap *, DFS::sector_count_type begin, DFS::sector_count_type end, const DFS::ParsedFileName& name)
{
  if (nfile < CMD_ENTRIES + 1) { fbegin[nfile] = begin; fend[nfile] = end; fname1[nfile] = name.name.size() > 1 ? name.name[1] : '?'; }
  ++nfile;
}
}
extern "C" void h_map_sectors(void)
{
  MemDrive drive; Disc k;
  make_disc(drive, k);
  DFS::Volume vol(CMD_FORMAT, 0, 0, 800, drive);
  DFS::SectorMap map(false);
  const unsigned long origin = vf_nondet_u16();          // where the volume's data region starts on the surface
#ifdef VF_NATIVE
  // no call redirection in the native build: derive the recorded calls from the real map
  vol.root().map_sectors(DFS::VolumeSelector(0), origin, origin, &map);
  for (unsigned long sec = 0; sec < 70000ul + 800; ++sec)
    {
      auto l = map.at(static_cast<DFS::sector_count_type>(sec));
      if (!l) continue;
      if (*l == "catalog") { if (maprec::ncat < 6) maprec::cat[maprec::ncat] = sec; ++maprec::ncat; continue; }
      unsigned long e = sec; while (map.at(static_cast<DFS::sector_count_type>(e + 1)) && *map.at(static_cast<DFS::sector_count_type>(e + 1)) == *l) ++e;
      if (maprec::nfile < CMD_ENTRIES + 1) { maprec::fbegin[maprec::nfile] = sec; maprec::fend[maprec::nfile] = e + 1; maprec::fname1[maprec::nfile] = (*l)[3]; }
      ++maprec::nfile; sec = e;
    }
#else
  vol.root().map_sectors(DFS::VolumeSelector(0), origin, origin, &map);
#endif
  vf_assert(maprec::ncat == CAT_SECTORS, "every catalogue sector is labelled as catalogue");
  for (unsigned i = 0; i < 4; ++i) if (i < CAT_SECTORS) vf_assert(maprec::cat[i] == origin + i, "the catalogue occupies the first sectors of the volume");
  // files with a body, each exactly once with exactly its sectors; zero-length files own no sector
  unsigned want = 0;
  for (unsigned i = 0; i < CMD_ENTRIES; ++i) if (k.len[i] != 0) ++want;
  vf_assert(maprec::nfile == want, "one range per file that has a body; a zero-length file owns no sector");
  for (unsigned i = 0; i < CMD_ENTRIES; ++i)
    if (k.len[i] != 0)
      {
        bool found = false;
        for (unsigned j = 0; j < CMD_ENTRIES; ++j)
          if (j < maprec::nfile && maprec::fname1[j] == static_cast<char>('0' + i))
            {
              found = true;
              vf_assert(maprec::fbegin[j] == origin + k.start[i] && maprec::fend[j] == origin + k.start[i] + k.secs[i], "a file owns exactly the sectors start .. start + ceil(length/256) - 1");
            }
        vf_assert(found, "every file with a body is in the map");
      }
  vf_observe(maprec::nfile); vf_observe(maprec::ncat);
#if CMD_ENTRIES > 1
  if (k.len[0] == 0 && k.len[1] != 0) vf_witness("a zero-length file next to a file with a body");
  if (want == CMD_ENTRIES) vf_witness("all files have bodies");
#else
  vf_witness("no files");
#endif
}

// ---------------------------------------------------------------- C07: a catalogue that cannot be read
extern "C" void h_catalog_unreadable(void)
{
  MemDrive drive;
  drive.s0 = DFS::SectorBuffer(); drive.s1 = DFS::SectorBuffer();
  drive.s1[7] = 200;
#ifndef CAT_READABLE
#define CAT_READABLE 1
#endif
  drive.total = CAT_READABLE;                       // 0, 1 or 2 readable sectors (constant per query): with fewer than 2 there is no catalogue
  drive.s1[6] = vf_nondet_u8() & 3;
  bool bad = false, other = false, built = false;
  try { DFS::Volume vol(CMD_FORMAT, 0, 0, 800, drive); built = true; vf_observe(vol.root().entries().size()); }
  catch (DFS::BadFileSystem&) { bad = true; }
  catch (std::exception&) { other = true; }
  // (an exception that is not a std::exception -- e.g. a thrown POINTER -- escapes and is reported by vf_main)
  vf_assert(!other, "an unreadable catalogue is reported as BadFileSystem");
  if (drive.total < CAT_SECTORS) vf_assert(bad && !built, "a volume whose catalogue sectors cannot be read is rejected");
  vf_observe(bad);
#if CAT_READABLE < 2
  if (bad) vf_witness("unreadable catalogue rejected");
#else
  if (built) vf_witness("readable catalogue accepted");
#endif
}
