// Wrapper TU ("rung 5"): whole command objects invoked on a StorageConfiguration that holds one
// in-memory drive with a symbolic catalogue (C14; also exercises mount / FileSystem / Volume / Catalog).
#include "prelude.h"
namespace DFS { bool verbose = false; }
#include "/repo/dfs/geometry.cc"
#include "/repo/dfs/stringutil.cc"
#include "/repo/dfs/exceptions.cc"
#include "/repo/dfs/driveselector.cc"
#include "/repo/dfs/fsp.cc"
#include "/repo/dfs/dfs_unused.cc"
#include "/repo/dfs/dfs_catalog.cc"
#include "/repo/dfs/opus_cat.cc"
#include "/repo/dfs/dfs_volume.cc"
#include "/repo/dfs/dfs_filesystem.cc"
#include "/repo/dfs/img_fileio.cc"
#include "/repo/dfs/storage.cc"
#include "/repo/dfs/commands.cc"
#include "/repo/dfs/cmd_free.cc"
#include "/repo/dfs/cmd_space.cc"

#ifndef CMD_ENTRIES
#define CMD_ENTRIES 2
#endif

namespace {
struct MemDrive : public DFS::AbstractDrive
{
  DFS::SectorBuffer s0, s1;
  unsigned total;
  std::optional<DFS::SectorBuffer> read_block(unsigned long lba) override
  {
    if (lba >= total) return std::nullopt;
    if (lba == 0) return s0;
    if (lba == 1) return s1;
    return DFS::SectorBuffer();
  }
  DFS::Geometry geometry() const override { return DFS::Geometry(80, 1, 10, DFS::Encoding::FM); }
  std::string description() const override { return std::string("mem"); }
};

struct Disc
{
  unsigned n;                         // entries
  unsigned start[CMD_ENTRIES], len[CMD_ENTRIES], secs[CMD_ENTRIES];
  unsigned total;
};

// A well-formed Acorn DFS catalogue of <= CMD_ENTRIES files: entries in descending start order (as DFS keeps
// them), each file inside the disc and after the catalogue, no two files overlapping.
void make_disc(MemDrive& d, Disc& k)
{
  d.s0 = DFS::SectorBuffer(); d.s1 = DFS::SectorBuffer();
  k.n = CMD_ENTRIES;        // the number of entries is a constant per query: vectors of symbolic length are out of reach (measured: out of memory)
  k.total = vf_nondet_u16(); vf_assume(k.total >= 3 && k.total <= 800);
  d.total = 800;
  d.s1[5] = static_cast<DFS::byte>(8 * k.n);
  d.s1[6] = static_cast<DFS::byte>((k.total >> 8) & 3);
  d.s1[7] = static_cast<DFS::byte>(k.total & 0xFF);
  unsigned limit = k.total;             // next file must end at or before this sector
  for (unsigned i = 0; i < CMD_ENTRIES; ++i)
    {
      k.start[i] = vf_nondet_u16() & 0x3FF; k.len[i] = vf_nondet_u32() & 0x3FFFF;
      k.secs[i] = (k.len[i] + 255) / 256;
      if (i < k.n)
        {
          vf_assume(k.start[i] >= 2 && k.start[i] + k.secs[i] <= limit);
#ifdef KF_NO_EMPTY_FILES
          vf_assume(k.len[i] != 0);
#endif
          limit = k.start[i];
          const unsigned off = 8 + 8 * i;
          d.s0[off] = 'F'; d.s0[off + 1] = static_cast<DFS::byte>('0' + i); for (unsigned j = 2; j < 7; ++j) d.s0[off + j] = ' '; d.s0[off + 7] = '$';
          d.s1[off + 4] = static_cast<DFS::byte>(k.len[i] & 0xFF); d.s1[off + 5] = static_cast<DFS::byte>((k.len[i] >> 8) & 0xFF);
          d.s1[off + 6] = static_cast<DFS::byte>(((k.start[i] >> 8) & 3) | (((k.len[i] >> 16) & 3) << 4));
          d.s1[off + 7] = static_cast<DFS::byte>(k.start[i] & 0xFF);
        }
    }
}

// the numbers printed on standard output, in order (one pass over the event log)
constexpr unsigned MAXNUM = 10;
unsigned long num_val[MAXNUM]; unsigned num_base[MAXNUM]; unsigned nnum;
void collect_nums()
{
  nnum = 0;
  for (unsigned i = 0; i < vfio::MAXEV; ++i)
    if (i < vfio::nev && vfio::ev_stream[i] == 1 && vfio::ev_kind[i] == vfio::K_NUM)
      {
        if (nnum < MAXNUM) { num_val[nnum] = vfio::ev_val[i]; num_base[nnum] = vfio::ev_base[i]; }
        ++nnum;
      }
}
bool cout_num(unsigned k, unsigned long *val, unsigned *base)
{
  if (k >= nnum || k >= MAXNUM) return false;
  *val = num_val[k]; *base = num_base[k];
  return true;
}
}

// StorageConfiguration::mount is replaced (ir2c --replace) by this stub: the real mount path (two std::maps, a cache,
// FileSystem with its volume map) made the query run out of memory; what the commands need from it is a Volume
// on the drive, which the stub builds with the REAL Volume/Catalog constructors.
static MemDrive *the_drive;
std::optional<DFS::VolumeMountResult> stub_mount(const DFS::StorageConfiguration *, const DFS::VolumeSelector&, std::string&)
{
  DFS::Volume *v = new DFS::Volume(DFS::Format::DFS, 0, 0, 800, *the_drive);
  return DFS::VolumeMountResult(std::unique_ptr<DFS::FileSystem>(), v);
}

// ---------------------------------------------------------------- C14-S2: free
extern "C" void h_cmd_free(void)
{
  MemDrive drive; Disc k;
  make_disc(drive, k);
  DFS::StorageConfiguration storage;
  the_drive = &drive;
#ifdef VF_NATIVE
  // the native build (replay / translator validation) has no call redirection: attach the drive for real
  { std::vector<std::optional<DFS::DriveConfig>> drives; drives.emplace_back(DFS::DriveConfig(DFS::Format::DFS, &drive)); storage.connect_drives(drives, DFS::DriveAllocation::FIRST); }
#endif
  DFS::DFSContext ctx('$', DFS::VolumeSelector(0));
  CommandFree cmd;
  std::vector<std::string> args; args.push_back("free");
  bool ok = false, threw = false;
  try { ok = cmd.invoke(storage, ctx, args); } catch (std::exception&) { threw = true; }
  vf_assert(!threw && ok, "free succeeds on a well-formed disc");
  collect_nums();
  // expected figures
  unsigned used = 2;
  for (unsigned i = 0; i < CMD_ENTRIES; ++i) if (i < k.n && k.start[i] + k.secs[i] > used) used = k.start[i] + k.secs[i];
  const unsigned long want[6] = { 31u - k.n, k.total - used, (k.total - used) * 256ul, k.n, used, used * 256ul };
  for (unsigned j = 0; j < 6; ++j)
    {
      unsigned long v = 0; unsigned base = 0;
      const bool have = cout_num(j, &v, &base);
      vf_assert(have && v == want[j], "free prints free files, free sectors, free bytes, used files, used sectors, used bytes");
      if (have) vf_assert(base == ((j % 3 == 1) ? 16u : 10u), "sector counts in hexadecimal, files and bytes in decimal");
    }
  vf_observe(used); vf_observe(k.n);
#if CMD_ENTRIES > 0
  if (used == k.total) vf_witness("full disc");
  if (used < k.total && k.len[0] == 0) vf_witness("zero-length file last on the disc");
#else
  vf_witness("empty disc");
#endif
}

// ---------------------------------------------------------------- C14-S3: space
extern "C" void h_cmd_space(void)
{
  MemDrive drive; Disc k;
  make_disc(drive, k);
  DFS::StorageConfiguration storage;
  the_drive = &drive;
#ifdef VF_NATIVE
  // the native build (replay / translator validation) has no call redirection: attach the drive for real
  { std::vector<std::optional<DFS::DriveConfig>> drives; drives.emplace_back(DFS::DriveConfig(DFS::Format::DFS, &drive)); storage.connect_drives(drives, DFS::DriveAllocation::FIRST); }
#endif
  DFS::DFSContext ctx('$', DFS::VolumeSelector(0));
  CommandSpace cmd;
  std::vector<std::string> args; args.push_back("space");
  bool ok = false, threw = false;
  try { ok = cmd.invoke(storage, ctx, args); } catch (std::exception&) { threw = true; }
  vf_assert(!threw && ok, "space succeeds on a well-formed disc");
  collect_nums();
  // expected: the runs of unallocated sectors in ascending disc order: catalogue..lowest file, between files, last file..end
  unsigned gaps[CMD_ENTRIES + 1]; unsigned ng = 0; unsigned long sum = 0;
  unsigned pos = 2;
  for (unsigned j = 0; j < CMD_ENTRIES; ++j)
    {
      const unsigned i = CMD_ENTRIES - 1 - j;           // catalogue order is descending by start sector
      if (i < k.n)
        {
          if (k.start[i] > pos) { gaps[ng++] = k.start[i] - pos; sum += k.start[i] - pos; }
          pos = k.start[i] + k.secs[i];
        }
    }
  if (k.total > pos) { gaps[ng++] = k.total - pos; sum += k.total - pos; }
  unsigned long v = 0; unsigned base = 0;
  vf_assert(cout_num(0, &v, &base) && v == 0, "the heading names the drive");
  for (unsigned j = 0; j < CMD_ENTRIES + 1; ++j)
    if (j < ng)
      vf_assert(cout_num(1 + j, &v, &base) && v == gaps[j] && base == 16, "each maximal run of free sectors is listed once, in disc order, in hexadecimal");
  vf_assert(cout_num(1 + ng, &v, &base) && v == sum, "the total is the sum of the runs = total sectors - catalogue sectors - sectors of all files");
  vf_assert(!cout_num(2 + ng, &v, &base), "nothing else is listed");
  vf_observe(ng); vf_observe(sum);
  if (ng == CMD_ENTRIES + 1) vf_witness("gap before, between and after the files");
#if CMD_ENTRIES > 0
  if (ng == 0) vf_witness("no free space at all");
#endif
}
