// Wrapper TU: sector-dump containers (C04, C17): FileView stride arithmetic,
// blockwise file presentation, SSD/DSD/MMB view construction.
#include "prelude.h"
namespace DFS { bool verbose = false; }
#include "/repo/dfs/geometry.cc"
#include "/repo/dfs/img_fileio.cc"
#include "/repo/dfs/img_sdf.cc"
#include "/repo/dfs/img_mmb.cc"
#include "/repo/dfs/exceptions.cc"
#include "/repo/dfs/driveselector.cc"
#include "/repo/dfs/storage.cc"
#include "/repo/dfs/stringutil.cc"
#include "/repo/dfs/fsp.cc"
#include "/repo/dfs/dfs_unused.cc"
#include "/repo/dfs/dfs_catalog.cc"
#include "/repo/dfs/opus_cat.cc"
#include "/repo/dfs/dfs_volume.cc"
#include "/repo/dfs/dfs_filesystem.cc"
#include "/repo/dfs/identify.cc"
#include "/repo/dfs/img_load.cc"

using DFS::byte;

namespace {
struct RecAccess : public DFS::DataAccess      // records the sector asked of the underlying medium
{
  unsigned long asked[4]; unsigned n = 0; bool answer = true;
  std::optional<DFS::SectorBuffer> read_block(unsigned long lba) override
  {
    if (n < 4) asked[n] = lba;
    ++n;
    if (!answer) return std::nullopt;
    return DFS::SectorBuffer();
  }
};

struct RecFile : public DFS::FileAccess        // records byte offsets/lengths asked of the host file
{
  unsigned long off[40], len[40]; unsigned n = 0;
  unsigned long size;                          // file size in bytes
  uint8_t seed = 0; unsigned probe = 0;
  std::vector<byte> read(unsigned long offset, unsigned long count) override
  {
    if (n < 40) { off[n] = offset; len[n] = count; }
    ++n;
    unsigned long avail = offset < size ? size - offset : 0;
    unsigned long give = count < avail ? count : avail;
    if (give > 256) give = 256;
    std::vector<byte> v(give);
    if (probe < give) v[probe] = static_cast<byte>(seed ^ (offset >> 8));
    return v;
  }
};
}

// ---------------------------------------------------------------- C04-K1 / C17-V2
extern "C" void h_fileview(void)
{
  RecAccess media;
  media.answer = vf_nondet_u8() & 1;
  const unsigned long skip = vf_nondet_u32();
#ifdef FV_TAKE
  // Division/modulo by a fully symbolic `take` stalls every back end (SAT, z3, cvc5 bv-as-int: no verdict in
  // 300 s each), so `take` is a compile-time constant per query: the values the container constructors can
  // produce (sectors per track, or sectors per side).  Other values of take are outside the verdict.
  const unsigned take = FV_TAKE;
#else
  const unsigned take = vf_nondet_u16();
#endif
  const unsigned leave = vf_nondet_u16(), total = vf_nondet_u16();
  // The stride arithmetic only runs for sector < total <= 65535; a 64-bit symbolic dividend makes the
  // bit-blasted divider stall (measured > 15 min), so the dividend is 20 bits wide here and the case
  // sector >= 2^20 (always beyond the surface) is decided by the separate query h_fileview_far.
  const unsigned long sector = vf_nondet_u32() & 0xFFFFF;
  const std::string nm("img"), desc("d");
  DFS::internal::FileView view(media, nm, desc, DFS::Geometry(80, 1, 10, DFS::Encoding::FM), skip, take, leave, total);
  bool threw = false; std::optional<DFS::SectorBuffer> got;
  try { got = view.read_block(sector); } catch (std::range_error&) { threw = true; }
  vf_assert(!threw, "16-bit view parameters never overflow the stride arithmetic");
  vf_assert(view.is_formatted() == (take != 0), "take == 0 marks an unformatted device");
  if (take == 0 || sector >= total)
    {
      vf_assert(media.n == 0 && !got.has_value(), "a read on an unformatted device or beyond the end of the surface fails without touching the file");
    }
  else
    {
      // quotient and remainder are guessed and checked by multiplication (cheaper for the solver than a second divider)
      const unsigned long q = vf_nondet_u32() & 0xFFFFF, r = vf_nondet_u16();
      vf_assume(r < take && q * take + r == sector);
      const unsigned long want = skip + q * (static_cast<unsigned long>(take) + leave) + r;
      vf_assert(media.n == 1 && media.asked[0] == want, "sector s of the surface is sector skip + (s div take)*(take+leave) + s mod take of the file");
      vf_assert(got.has_value() == media.answer, "the result is the underlying result");
    }
  vf_observe(media.n); vf_observe(media.n ? media.asked[0] : 0); vf_observe(got.has_value());
  if (take && sector + 1 == total && leave) vf_witness("last sector of an interleaved surface");
  if (take && sector == total) vf_witness("first sector beyond the surface");
  if (!take) vf_witness("unformatted device");
}

extern "C" void h_fileview_far(void)
{
  RecAccess media;
  const unsigned long skip = vf_nondet_u32();
  const unsigned take = vf_nondet_u16(), leave = vf_nondet_u16(), total = vf_nondet_u16();
  const unsigned long sector = vf_nondet_u64();
  vf_assume(sector >= total);
  const std::string nm("img"), desc("d");
  DFS::internal::FileView view(media, nm, desc, DFS::Geometry(80, 1, 10, DFS::Encoding::FM), skip, take, leave, total);
  auto got = view.read_block(sector);
  vf_assert(media.n == 0 && !got.has_value(), "any 64-bit sector number at or beyond the end of the surface fails without touching the file");
  vf_observe(got.has_value());
  if (sector == total) vf_witness("first sector beyond the surface");
  if (sector > 0xFFFFFFFFull) vf_witness("sector number above 2^32");
}

// ---------------------------------------------------------------- C04: FilePresentedBlockwise
extern "C" void h_blockwise(void)
{
  RecFile f;
  f.size = vf_nondet_u32(); f.seed = vf_nondet_u8(); f.probe = vf_nondet_u8();
  const unsigned long lba = vf_nondet_u32();
  DFS::FilePresentedBlockwise blocks(f);
  auto got = blocks.read_block(lba);
  vf_assert(f.n == 1 && f.off[0] == lba * 256 && f.len[0] == 256, "sector n is the 256 bytes at byte offset 256*n");
  vf_assert(got.has_value() == (lba * 256 + 256 <= f.size), "a sector that is not completely inside the file is not returned");
  if (got) vf_assert((*got)[f.probe] == static_cast<byte>(f.seed ^ lba), "the bytes returned are the bytes read");
  vf_observe(got.has_value());
  if (got && lba * 256 + 256 == f.size) vf_witness("last complete sector of the file");
  if (!got && lba * 256 < f.size) vf_witness("partial sector at the end of the file");
}

// ---------------------------------------------------------------- C04-K2: MMB slot table -> views
namespace {
struct MmbTable : public DFS::FileAccess
{
  byte status[4];                      // status bytes of slots 0..3 (symbolic); every later slot is read-write (0x0F)
  unsigned reads = 0;
  std::vector<byte> read(unsigned long offset, unsigned long count) override
  {
    ++reads;
    std::vector<byte> v(256);
    (void)count;
    const unsigned long sec = offset / 256;
    for (unsigned i = 0; i < 16; ++i)
      {
        const long slot = static_cast<long>(sec * 16 + i) - 1;
        v[16 * i + 15] = (slot >= 0 && slot < 4) ? status[slot] : 0x0F;
      }
    return v;
  }
};
}
// ViewFile::add_view is replaced (ir2c --replace) by this recorder: growing a vector of 511 FileViews (two strings
// each) gave no verdict in 25 min; what matters is which parameters each slot's view is created with.
namespace rec {
unsigned n; unsigned long skip[5]; unsigned take[5], leave[5], total[5];
void stub_add_view(DFS::ViewFile *, const DFS::internal::FileView& v)
{
  if (n < 5) { skip[n] = v.initial_skip_; take[n] = v.take_; leave[n] = v.leave_; total[n] = v.total_; }
  ++n;
}
}
extern "C" void h_mmb_views(void)
{
  MmbTable *t = new MmbTable;
  for (unsigned i = 0; i < 4; ++i) t->status[i] = vf_nondet_u8();
  bool threw = false; MmbFile *mmb = nullptr;
  try { mmb = new MmbFile(std::string("x.mmb"), false, std::unique_ptr<DFS::FileAccess>(t)); } catch (std::exception&) { threw = true; }
  vf_assert(!threw && mmb != nullptr, "a complete slot table is accepted");
#ifdef VF_NATIVE
  // no call redirection in the native build: read the recorder's data off the real vector of views
  if (mmb) { rec::n = 0; for (const auto& v : mmb->views_) rec::stub_add_view(mmb, v); }
#endif
  vf_assert(rec::n == 511, "an MMB archive has 511 slots, each presented as one drive");
  const unsigned k = vf_nondet_u8() % 5;            // slots 0..3 have symbolic status; slot 4 is the first plain one
  const bool present = k >= 4 || t->status[k] == 0x00 || t->status[k] == 0x0F;
  vf_assert((rec::take[k] != 0) == present, "a slot is usable iff its status byte is 0x00 (read-only) or 0x0F (read-write)");
  if (present)
    {
      vf_assert(rec::skip[k] == 32 + 800ul * k, "slot k begins 32 + 800k sectors into the file: byte offset 8192 + 204800k");
      vf_assert(rec::take[k] == 800 && rec::leave[k] == 0 && rec::total[k] == 800, "each slot is one contiguous 80-track, 10-sector, single-sided image");
    }
  vf_observe(rec::take[k]); vf_observe(rec::skip[k]);
  if (k == 3 && present && t->status[1] == 0xF0) vf_witness("formatted slot after an unformatted one");
  if (!present) vf_witness("unformatted or invalid slot");
}
