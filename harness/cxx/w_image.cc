// Wrapper TU: sector-dump containers (C04, C17): FileView stride arithmetic,
// blockwise file presentation, SSD/DSD/MMB view construction.
#include "prelude.h"
namespace DFS { bool verbose = false; }
#include "/repo/dfs/geometry.cc"
#include "/repo/dfs/img_fileio.cc"
#include "/repo/dfs/img_sdf.cc"
#include "/repo/dfs/img_mmb.cc"
#include "/repo/dfs/exceptions.cc"
#include "/repo/dfs/driveselector.cc"
#include "/repo/dfs/storage.cc"

using DFS::byte;

namespace {
struct RecAccess : public DFS::DataAccess      // records the sector asked of the underlying medium
{
  unsigned long asked[4]; unsigned n = 0; bool answer = true;
  std::optional<DFS::SectorBuffer> read_block(unsigned long lba) override
  {
    if (n < 4) asked[n] = lba;
    ++n;
    if (!answer) return std::nullopt;
    return DFS::SectorBuffer();
  }
};

struct RecFile : public DFS::FileAccess        // records byte offsets/lengths asked of the host file
{
  unsigned long off[40], len[40]; unsigned n = 0;
  unsigned long size;                          // file size in bytes
  uint8_t seed = 0; unsigned probe = 0;
  std::vector<byte> read(unsigned long offset, unsigned long count) override
  {
    if (n < 40) { off[n] = offset; len[n] = count; }
    ++n;
    unsigned long avail = offset < size ? size - offset : 0;
    unsigned long give = count < avail ? count : avail;
    if (give > 256) give = 256;
    std::vector<byte> v(give);
    if (probe < give) v[probe] = static_cast<byte>(seed ^ (offset >> 8));
    return v;
  }
};
}

// ---------------------------------------------------------------- C04-K1 / C17-V2
extern "C" void h_fileview(void)
{
  RecAccess media;
  media.answer = vf_nondet_u8() & 1;
  const unsigned long skip = vf_nondet_u32();
#ifdef FV_TAKE
  // Division/modulo by a fully symbolic `take` stalls every back end (SAT, z3, cvc5 bv-as-int: no verdict in
  // 300 s each), so `take` is a compile-time constant per query: the values the container constructors can
  // produce (sectors per track, or sectors per side).  Other values of take are outside the verdict.
  const unsigned take = FV_TAKE;
#else
  const unsigned take = vf_nondet_u16();
#endif
  const unsigned leave = vf_nondet_u16(), total = vf_nondet_u16();
  // The stride arithmetic only runs for sector < total <= 65535; a 64-bit symbolic dividend makes the
  // bit-blasted divider stall (measured > 15 min), so the dividend is 20 bits wide here and the case
  // sector >= 2^20 (always beyond the surface) is decided by the separate query h_fileview_far.
  const unsigned long sector = vf_nondet_u32() & 0xFFFFF;
  const std::string nm("img"), desc("d");
  DFS::internal::FileView view(media, nm, desc, DFS::Geometry(80, 1, 10, DFS::Encoding::FM), skip, take, leave, total);
  bool threw = false; std::optional<DFS::SectorBuffer> got;
  try { got = view.read_block(sector); } catch (std::range_error&) { threw = true; }
  vf_assert(!threw, "16-bit view parameters never overflow the stride arithmetic");
  vf_assert(view.is_formatted() == (take != 0), "take == 0 marks an unformatted device");
  if (take == 0 || sector >= total)
    {
      vf_assert(media.n == 0 && !got.has_value(), "a read on an unformatted device or beyond the end of the surface fails without touching the file");
    }
  else
    {
      // quotient and remainder are guessed and checked by multiplication (cheaper for the solver than a second divider)
      const unsigned long q = vf_nondet_u32() & 0xFFFFF, r = vf_nondet_u16();
      vf_assume(r < take && q * take + r == sector);
      const unsigned long want = skip + q * (static_cast<unsigned long>(take) + leave) + r;
      vf_assert(media.n == 1 && media.asked[0] == want, "sector s of the surface is sector skip + (s div take)*(take+leave) + s mod take of the file");
      vf_assert(got.has_value() == media.answer, "the result is the underlying result");
    }
  vf_observe(media.n); vf_observe(media.n ? media.asked[0] : 0); vf_observe(got.has_value());
  if (take && sector + 1 == total && leave) vf_witness("last sector of an interleaved surface");
  if (take && sector == total) vf_witness("first sector beyond the surface");
  if (!take) vf_witness("unformatted device");
}

extern "C" void h_fileview_far(void)
{
  RecAccess media;
  const unsigned long skip = vf_nondet_u32();
  const unsigned take = vf_nondet_u16(), leave = vf_nondet_u16(), total = vf_nondet_u16();
  const unsigned long sector = vf_nondet_u64();
  vf_assume(sector >= total);
  const std::string nm("img"), desc("d");
  DFS::internal::FileView view(media, nm, desc, DFS::Geometry(80, 1, 10, DFS::Encoding::FM), skip, take, leave, total);
  auto got = view.read_block(sector);
  vf_assert(media.n == 0 && !got.has_value(), "any 64-bit sector number at or beyond the end of the surface fails without touching the file");
  vf_observe(got.has_value());
  if (sector == total) vf_witness("first sector beyond the surface");
  if (sector > 0xFFFFFFFFull) vf_witness("sector number above 2^32");
}

// ---------------------------------------------------------------- C04: FilePresentedBlockwise
extern "C" void h_blockwise(void)
{
  RecFile f;
  f.size = vf_nondet_u32(); f.seed = vf_nondet_u8(); f.probe = vf_nondet_u8();
  const unsigned long lba = vf_nondet_u32();
  DFS::FilePresentedBlockwise blocks(f);
  auto got = blocks.read_block(lba);
  vf_assert(f.n == 1 && f.off[0] == lba * 256 && f.len[0] == 256, "sector n is the 256 bytes at byte offset 256*n");
  vf_assert(got.has_value() == (lba * 256 + 256 <= f.size), "a sector that is not completely inside the file is not returned");
  if (got) vf_assert((*got)[f.probe] == static_cast<byte>(f.seed ^ lba), "the bytes returned are the bytes read");
  vf_observe(got.has_value());
  if (got && lba * 256 + 256 == f.size) vf_witness("last complete sector of the file");
  if (!got && lba * 256 < f.size) vf_witness("partial sector at the end of the file");
}
