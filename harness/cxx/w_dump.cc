// Wrapper TU: dump-sector argument parsing (C04: (drive, track, sector) must name the sector the user asked for).
#include "prelude.h"
namespace DFS { bool verbose = false; }
#include "/repo/dfs/hexdump.cc"
#include "/repo/dfs/cmd_dump.cc"

#ifndef ALEN
#define ALEN 2
#endif
// get_arg on every argument string of exactly ALEN characters and every upper limit: a value is returned iff the string
// is a decimal number in 0..limit, and then it is that number (in particular "-1" never selects a sector).
extern "C" void h_get_arg(void)
{
  char a[ALEN + 1];
  for (unsigned i = 0; i < ALEN; ++i) { a[i] = static_cast<char>(vf_nondet_u8()); vf_assume(a[i] > 0 && a[i] < 0x7F); }
  a[ALEN] = 0;
  const long limit = static_cast<long>(vf_nondet_u16());
  bool threw = false; std::optional<long> got;
  try { got = DFS::get_arg(std::string("sector"), std::string(a), limit); } catch (std::exception&) { threw = true; }
  bool digits = true; long v = 0;
  for (unsigned i = 0; i < ALEN; ++i) { if (a[i] < '0' || a[i] > '9') digits = false; else v = v * 10 + (a[i] - '0'); }
  if (got) vf_assert(*got >= 0 && *got <= limit, "an accepted track/sector number lies in 0..limit");
  if (digits && !threw) vf_assert(static_cast<bool>(got) == (v <= limit) && (!got || *got == v), "a plain decimal number is accepted iff it is within the limit, and is taken at its value");
  if (threw) vf_assert(!digits, "only std::invalid_argument for non-numeric text may escape get_arg");
  vf_observe(static_cast<bool>(got)); vf_observe(got ? *got : -1);
  if (got && *got == limit) vf_witness("number at the limit accepted");
  if (!got && a[0] == '-') vf_witness("negative number rejected");
}
