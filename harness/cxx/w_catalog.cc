// Wrapper TU: catalogue entry arithmetic, sector walk, volume window.
#include "prelude.h"
namespace DFS { bool verbose = false; }
#include "/repo/dfs/geometry.cc"
#include "/repo/dfs/stringutil.cc"
#include "/repo/dfs/exceptions.cc"
#include "/repo/dfs/driveselector.cc"
#include "/repo/dfs/fsp.cc"
#include "/repo/dfs/dfs_unused.cc"
#include "/repo/dfs/dfs_catalog.cc"
#include "/repo/dfs/opus_cat.cc"
#include "/repo/dfs/dfs_volume.cc"
#include "/repo/dfs/dfs_filesystem.cc"
#include "/repo/dfs/img_fileio.cc"
#include "/repo/dfs/storage.cc"

using DFS::byte;

#ifndef WALK_MAXLEN
#define WALK_MAXLEN 1024
#endif
namespace {
constexpr unsigned MAXCALLS = WALK_MAXLEN / 256 + 2;      // the longest file of the query plus one spare call

// A medium that records which sectors are requested.  The sector returned by
// call number k carries seed[k] at byte offset `probe` (a symbolic offset chosen
// by the harness), which is where the visitor checks whose bytes it received;
// since probe is arbitrary this covers every offset without filling 256 bytes.
struct RecMedia : public DFS::DataAccess
{
  unsigned long lbas[MAXCALLS];
  uint8_t seed[MAXCALLS];
  unsigned n = 0;
  unsigned fail_at;         // the call with this index (and later ones) fails
  unsigned probe = 0;
  std::optional<DFS::SectorBuffer> read_block(unsigned long lba) override
  {
    unsigned k = n++;
    if (k < MAXCALLS) lbas[k] = lba;
    if (k >= fail_at || k >= MAXCALLS) return std::nullopt;
    DFS::SectorBuffer b = DFS::SectorBuffer();
    b[probe % DFS::SECTOR_BYTES] = seed[k];
    return b;
  }
};
}

// ---------------------------------------------------------------- C01-K1 / C02-K1
extern "C" void h_entry_fields(void)
{
  byte name[8], meta[8];
  for (int i = 0; i < 8; ++i) { name[i] = vf_nondet_u8(); meta[i] = vf_nondet_u8(); }
  DFS::CatalogEntry e(name, meta);
  const unsigned m6 = meta[6];
  // independent statement of the Acorn DFS catalogue layout (sector 1, 8 bytes per file):
  //   +0,1 load lo   +2,3 exec lo   +4,5 length lo   +6 mixed: b1-0 start hi, b3-2 load hi, b5-4 length hi, b7-6 exec hi   +7 start lo
  const unsigned long load  = meta[0] | (meta[1] << 8) | (((m6 >> 2) & 3ul) << 16);
  const unsigned long exec  = meta[2] | (meta[3] << 8) | (((m6 >> 6) & 3ul) << 16);
  const unsigned long len   = meta[4] | (meta[5] << 8) | (((m6 >> 4) & 3ul) << 16);
  const unsigned start      = meta[7] | ((m6 & 3u) << 8);
  vf_assert(e.load_address() == load, "load address = 16 low bits + bits 2-3 of the mixed byte");
  vf_assert(e.exec_address() == exec, "exec address = 16 low bits + bits 6-7 of the mixed byte");
  vf_assert(e.file_length() == len, "length = 16 low bits + bits 4-5 of the mixed byte");
  vf_assert(e.start_sector() == start, "start sector = low byte + bits 0-1 of the mixed byte");
  const unsigned long secs = (len + 255) / 256;
  vf_assert(e.last_sector() == (len == 0 ? start : start + secs - 1), "last sector = start + ceil(len/256) - 1");
  vf_assert(e.is_locked() == ((name[7] & 0x80) != 0), "lock flag = top bit of the directory byte");
  vf_assert(e.directory() == (char)(name[7] & 0x7F), "directory = low 7 bits");
  vf_assert(DFS::sign_extend(load) == ((load & 0x20000) ? (load | 0xFF0000) : load), "sign extension exactly when bit 17 is set");
  vf_observe(e.load_address()); vf_observe(e.exec_address()); vf_observe(e.file_length()); vf_observe(e.start_sector()); vf_observe(e.last_sector());
  if (len == 0x3FFFF && start == 0x3FF) vf_witness("largest length and start sector");
  if (len == 0) vf_witness("zero-length file");
}

// ---------------------------------------------------------------- C01-K2: the sector walk
#ifndef WALK_MAXLEN
#define WALK_MAXLEN 1024
#endif
extern "C" void h_sector_walk(void)
{
  byte name[8], meta[8];
  for (int i = 0; i < 8; ++i) { name[i] = vf_nondet_u8(); meta[i] = vf_nondet_u8(); }
  DFS::CatalogEntry e(name, meta);
  const unsigned long len = e.file_length();
  const unsigned start = e.start_sector();
  vf_assume(len <= WALK_MAXLEN);
  RecMedia media;
  for (unsigned i = 0; i < MAXCALLS; ++i) media.seed[i] = vf_nondet_u8();
  media.fail_at = vf_nondet_u8();
  const unsigned stop_at = vf_nondet_u8();      // visitor returns false at this call
  const unsigned probe = vf_nondet_u8();        // byte offset checked inside each piece
  media.probe = probe;

  unsigned visits = 0; unsigned long delivered = 0; bool content_ok = true, sizes_ok = true;
  const unsigned long need = len == 0 ? 1 : (len + 255) / 256;
  auto visitor = [&](const byte *b, const byte *en) -> bool
    {
      const unsigned k = visits++;
      const unsigned long piece = static_cast<unsigned long>(en - b);
      const unsigned long want = (len == 0) ? 0 : (k + 1 < need ? 256 : len - 256 * (need - 1));
      if (piece != want) sizes_ok = false;
      if (probe < piece && k < MAXCALLS && b[probe] != media.seed[k]) content_ok = false;
      delivered += piece;
      return k != stop_at;
    };
  bool threw = false, result = false;
  try { result = e.visit_file_body_piecewise(media, visitor); }
  catch (DFS::BadFileSystem&) { threw = true; }

  for (unsigned i = 0; i < MAXCALLS; ++i)
    if (i < media.n) vf_assert(media.lbas[i] == start + i, "sectors are read in order start, start+1, ...");
  vf_assert(sizes_ok, "every piece is 256 bytes except the last, which is len - 256*(k-1)");
  vf_assert(content_ok, "the bytes handed on are the bytes of the sector just read");
  if (len > 0)
    {
      if (media.fail_at >= need && stop_at >= need)
        {
          vf_assert(!threw && result, "readable file is delivered completely");
          vf_assert(visits == need && media.n == need, "exactly ceil(len/256) sectors are read");
          vf_assert(delivered == len, "exactly the catalogued number of bytes is delivered");
        }
      if (media.fail_at < need && media.fail_at <= stop_at)
        {
          vf_assert(threw, "an unreadable sector inside the body raises BadFileSystem");
          vf_assert(visits == media.fail_at, "nothing is delivered from or after the unreadable sector");
        }
      if (stop_at < need && stop_at < media.fail_at)
        vf_assert(!threw && !result && visits == stop_at + 1, "the walk stops when the visitor says so");
    }
  else
    vf_assert(delivered == 0, "a zero-length file delivers no bytes");
  vf_observe(visits); vf_observe(delivered); vf_observe(threw); vf_observe(result);
  if (len == WALK_MAXLEN && !threw && result) vf_witness("maximum-length file delivered");
  if (len % 256 == 1 && need == 3 && result) vf_witness("257-or-more bytes with a one-byte tail");
  if (threw) vf_witness("unreadable sector");
}

// ---------------------------------------------------------------- C17-V1 / C01-K3: volume window
extern "C" void h_volume_access(void)
{
  const unsigned long origin = vf_nondet_u32(), len = vf_nondet_u32(), lba = vf_nondet_u64();
  RecMedia media;
  media.fail_at = vf_nondet_u8();
  for (unsigned i = 0; i < MAXCALLS; ++i) media.seed[i] = 0;
  DFS::Volume::Access acc(origin, len, media);
  auto got = acc.read_block(lba);
  if (lba < len)
    {
      vf_assert(media.n == 1 && media.lbas[0] == origin + lba, "sector lba of the volume is sector origin+lba of the disc");
      vf_assert(got.has_value() == (media.fail_at > 0), "result is the underlying result");
    }
  else
    {
      vf_assert(media.n == 0, "no sector outside the volume is requested from the disc");
      vf_assert(!got.has_value(), "a read at or beyond the volume length fails");
    }
  vf_observe(media.n); vf_observe(got.has_value());
  if (lba == len) vf_witness("read exactly at the volume boundary");
  if (lba + 1 == len && got.has_value()) vf_witness("last sector of the volume");
}
