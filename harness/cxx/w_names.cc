// Wrapper TU: file-name parsing and case-insensitive comparison (C15), catalogue name matching.
#include "prelude.h"
namespace DFS { bool verbose = false; }
#include "/repo/dfs/geometry.cc"
#include "/repo/dfs/stringutil.cc"
#include "/repo/dfs/exceptions.cc"
#include "/repo/dfs/driveselector.cc"
#include "/repo/dfs/fsp.cc"
#include "/repo/dfs/dfs_unused.cc"
#include "/repo/dfs/dfs_catalog.cc"
#include "/repo/dfs/opus_cat.cc"
#include "/repo/dfs/dfs_volume.cc"
#include "/repo/dfs/dfs_filesystem.cc"
#include "/repo/dfs/img_fileio.cc"
#include "/repo/dfs/storage.cc"

namespace {
std::string sym_string(unsigned maxlen, bool printable)
{
  const unsigned n = vf_nondet_u8();
  vf_assume(n <= maxlen);
  std::string s;
  for (unsigned i = 0; i < maxlen; ++i)
    if (i < n)
      {
        const char c = static_cast<char>(vf_nondet_u8());
        if (printable) vf_assume(c > 0x20 && c < 0x7F);
        s.push_back(c);
      }
  return s;
}
int lower(int c) { return (c >= 'A' && c <= 'Z') ? c + 32 : c; }
}

// ---------------------------------------------------------------- C15-W3
extern "C" void h_case_insensitive(void)
{
  const std::string a = sym_string(3, false), b = sym_string(3, false);
  for (char ch : a) vf_assume(ch != 0 && static_cast<unsigned char>(ch) < 0x80);
  for (char ch : b) vf_assume(ch != 0 && static_cast<unsigned char>(ch) < 0x80);
  // reference: lexicographic comparison of the lower-cased strings
  int cmp = 0;
  for (unsigned i = 0; i < 3 && cmp == 0; ++i)
    {
      if (i >= a.size() && i >= b.size()) break;
      if (i >= a.size()) { cmp = -1; break; }
      if (i >= b.size()) { cmp = 1; break; }
      const int x = lower(static_cast<unsigned char>(a[i])), y = lower(static_cast<unsigned char>(b[i]));
      if (x != y) cmp = x < y ? -1 : 1;
    }
  vf_assert(DFS::stringutil::case_insensitive_less(a, b) == (cmp < 0), "less-than is lexicographic order of the lower-cased strings");
  vf_assert(DFS::stringutil::case_insensitive_equal(a, b) == (cmp == 0), "equality ignores exactly letter case");
  vf_observe(cmp == 0);
  if (cmp == 0 && a.size() == 3 && a[0] != b[0]) vf_witness("equal up to case");
  if (cmp < 0 && a.size() < b.size()) vf_witness("proper prefix is less");
}

// ---------------------------------------------------------------- C15: CatalogEntry::has_name
extern "C" void h_has_name(void)
{
  DFS::byte name[8], meta[8];
  for (int i = 0; i < 8; ++i) { name[i] = vf_nondet_u8(); meta[i] = 0; }
  for (int i = 0; i < 7; ++i) vf_assume((name[i] & 0x7F) > 0x20 || (name[i] & 0x7F) == ' ');
  DFS::CatalogEntry e(name, meta);
  DFS::ParsedFileName want;
  want.dir = static_cast<char>(vf_nondet_u8());
  want.name = sym_string(3, true);
  for (int i = 3; i < 7; ++i) vf_assume((name[i] & 0x7F) == ' ');      // names of at most 3 characters (bound)
  unsigned ln = 0; while (ln < 7 && (name[ln] & 0x7F) != ' ') ++ln;
  bool same = want.name.size() == ln;
  for (unsigned i = 0; i < 7; ++i) if (same && i < ln && lower(static_cast<unsigned char>(want.name[i])) != lower(name[i] & 0x7F)) same = false;
  vf_assert(e.has_name(want) == (same && want.dir == static_cast<char>(name[7] & 0x7F)),
            "an entry is found by name iff the directory is identical and the name is equal ignoring case (7-bit, space-padded)");
  vf_observe(e.has_name(want));
  if (e.has_name(want) && ln == 3) vf_witness("three-character name found");
  if (!e.has_name(want) && same) vf_witness("same name in another directory");
}
