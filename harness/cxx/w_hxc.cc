// Wrapper TU: HxC MFM container (C05, C06, C07, C17): adapter lookup, header and track-list parsing.
#include "prelude.h"
namespace DFS { bool verbose = false; }
#include "/repo/dfs/geometry.cc"
#include "/repo/dfs/stringutil.cc"
#include "/repo/dfs/exceptions.cc"
#include "/repo/dfs/driveselector.cc"
#include "/repo/dfs/fsp.cc"
#include "/repo/dfs/dfs_unused.cc"
#include "/repo/dfs/dfs_catalog.cc"
#include "/repo/dfs/opus_cat.cc"
#include "/repo/dfs/dfs_volume.cc"
#include "/repo/dfs/dfs_filesystem.cc"
#include "/repo/dfs/img_fileio.cc"
#include "/repo/dfs/storage.cc"
#include "/repo/dfs/identify.cc"
#include "/repo/dfs/crc16.cc"
#include "/repo/dfs/track.cc"
#include "/repo/dfs/hexdump.cc"
#define read_byte mfm_read_byte
#include "/repo/dfs/track_mfm.cc"
#undef read_byte
#include "/repo/dfs/img_hxcmfm.cc"

// ---------------------------------------------------------------- C06-G4 / C17: the adapter returns the sector asked for, or fails
extern "C" void h_hxc_adapter(void)
{
  constexpr unsigned CYL = 2, SPT = 2;
#ifndef HXC_DROP
#define HXC_DROP 4
#endif
  // Which of the 4 sectors was dropped by track decoding is a constant per query (4 = none): a symbolic
  // subset makes the shape of the vector of vectors symbolic and the SAT stage does not finish (measured > 9 min).
  const unsigned present = 0x0F & ~(1u << HXC_DROP);
  std::vector<Track::Sector> sectors;
  for (unsigned c = 0; c < CYL; ++c)
    for (unsigned r = 0; r < SPT; ++r)
      if (present & (1u << (c * SPT + r)))
        {
          Track::Sector s;
          s.address.cylinder = static_cast<unsigned char>(c); s.address.head = 0; s.address.record = static_cast<unsigned char>(r);
          s.data.assign(4, static_cast<unsigned char>(0x10 * c + r));   // 4 bytes stand for the 256 (the adapter copies data.size() bytes)
          sectors.push_back(s);
        }
  HxcMfmFile::DataAccessAdapter acc(nullptr, DFS::Geometry(CYL, 1, SPT, DFS::Encoding::MFM), 0, sectors);
  const unsigned long lba = vf_nondet_u8();
  auto got = acc.read_block(lba);
  if (got)
    {
      vf_assert(lba < CYL * SPT, "no sector beyond the surface");
      vf_assert((*got)[0] == 0x10 * (lba / SPT) + lba % SPT && (*got)[3] == (*got)[0],
                "the data returned are those recorded under exactly the address (lba div spt, lba mod spt)");
    }
  else if (lba < CYL * SPT)
    vf_assert(!(present & (1u << lba)) || lba >= sectors.size(), "a sector that is present is found (unless beyond the decoded count)");
  vf_observe(got.has_value()); if (got) vf_observe((*got)[0]);
  if (got && HXC_DROP < 4) vf_witness("read from a surface with a dropped sector");
  if (!got && lba < CYL * SPT && HXC_DROP < 4) vf_witness("read of a dropped sector fails");
  if (got && HXC_DROP == 4 && lba == 3) vf_witness("last sector of an intact surface");
}

// ---------------------------------------------------------------- C07: header / track-list parsing on an arbitrary file
namespace {
// A host file of arbitrary contents and arbitrary (small) size: read(pos, len) returns min(len, size-pos) bytes.
struct SymFile : public DFS::FileAccess
{
  unsigned long size; unsigned reads = 0; unsigned long max_len = 0;
  std::vector<DFS::byte> read(unsigned long pos, unsigned long len) override
  {
    ++reads;
    if (len > max_len) max_len = len;
    // The result is complete, cut in the middle, or empty, depending on where the file ends.  (A vector of
    // fully symbolic size costs 46 M clauses per read -- measured -- so the three shapes are separate branches
    // with concrete sizes; the callers ask for 19 and 11 bytes.)
    const unsigned long avail = pos < size ? size - pos : 0;
    std::vector<DFS::byte> v;
    if (avail >= len) { v.resize(len); for (unsigned long i = 0; i < 19; ++i) if (i < len) v[i] = vf_nondet_u8(); }
    else if (avail >= len / 2 && len / 2 > 0) { v.resize(len / 2); for (unsigned long i = 0; i < 9; ++i) if (i < len / 2) v[i] = vf_nondet_u8(); }
    return v;
  }
};
}
extern "C" void h_hxc_header(void)
{
  SymFile f; f.size = vf_nondet_u16();
  std::string error;
  std::optional<Header> h;
  bool threw = false;
  try { h = read_and_verify_header(&f, error); } catch (std::exception&) { threw = true; }
  vf_assert(!threw, "header parsing reports problems through its return value");
  if (h) vf_assert(f.size >= 19 && h->track_list_offset >= 0x13, "a header is only accepted from a file that contains all 19 header bytes");
  vf_observe(h.has_value());
  if (h) vf_witness("well-formed header accepted");
  if (!h && f.size >= 19) vf_witness("complete but invalid header rejected");
  if (!h && f.size < 19) vf_witness("truncated header rejected");
}

#ifndef HXC_LIST_MAX
#define HXC_LIST_MAX 4
#endif
extern "C" void h_hxc_track_list(void)
{
  SymFile *f = new SymFile; f->size = vf_nondet_u16();
  vf_assume(f->size <= 0x13 + 11 * HXC_LIST_MAX);          // bound: room for at most HXC_LIST_MAX entries
  HxcMfmFile *img = static_cast<HxcMfmFile *>(::operator new(sizeof(HxcMfmFile)));   // object state set directly (the constructor would run the whole loader)
  new (&img->file_) std::unique_ptr<DFS::FileAccess>(f);
  img->header_.tracks = vf_nondet_u16(); img->header_.sides = vf_nondet_u8();
  vf_assume(img->header_.tracks >= 1 && img->header_.sides >= 1 && img->header_.sides <= 2);   // what the constructor guarantees
  img->header_.track_list_offset = 0x13;
  bool threw = false; size_t n = 0;
  try { auto m = img->get_track_metadata(); n = m.size(); } catch (std::exception&) { threw = true; }
  vf_assert(threw || n >= 1, "either the list is complete or the file is rejected");
  vf_assert(f->reads <= HXC_LIST_MAX + 1, "the loop stops at the end of the file");
  vf_observe(threw); vf_observe(n);
  if (!threw && n == 2) vf_witness("two-entry track list accepted");
  if (threw) vf_witness("truncated track list rejected");
}
