// Fixed-capacity model of std::string for the CBMC encoding (opt-in per wrapper: -DVF_STRMODEL).
//
// libstdc++'s std::string keeps either a pointer to its own 16-byte buffer or a pointer to a heap block; with string
// LENGTHS that are symbolic every further operation doubles the pointer cases and CBMC's propositional reduction runs out
// of memory after three concatenations (measured on extract-files, DESIGN.md 10).  libstdc++ is not the code under
// test, so for the encoding the repo's sources are compiled against this value type instead: a character array of
// constant capacity plus a length.  Every operation that would exceed the capacity is ASSERTED not to happen, so a
// string that does not fit is reported, never truncated.  The native build used for counterexample replay and for the
// translator validation does NOT use this model (VF_NATIVE): there the same harness runs on the real std::string, and
// the two are compared on concrete vectors on every run.
#ifndef VF_STRMODEL_H
#define VF_STRMODEL_H
#if defined(VF_STRMODEL) && !defined(VF_NATIVE)
#include <string>
#include <iterator>
#include <functional>
#include <errno.h>
#include <limits.h>
#include <stdlib.h>
#ifndef VF_STRCAP
#define VF_STRCAP 40
#endif
#define VF_NI __attribute__((noinline))
namespace std {
class vf_string
{
public:
  typedef size_t size_type;
  typedef char value_type;
  typedef char *iterator;
  typedef const char *const_iterator;
  typedef std::reverse_iterator<iterator> reverse_iterator;
  typedef std::reverse_iterator<const_iterator> const_reverse_iterator;
  typedef char& reference;
  typedef const char& const_reference;
  typedef ptrdiff_t difference_type;
  typedef std::char_traits<char> traits_type;
  static constexpr size_t npos = static_cast<size_t>(-1);
  static constexpr size_t CAP = VF_STRCAP;

  char b_[CAP + 1];
  size_t n_;

  static void fits(size_t n) { vf_assert(n <= CAP, "string model: string longer than VF_STRCAP"); if (n > CAP) vf_assume(false); }
  VF_NI static size_t cstrlen(const char *s) { size_t n = 0; for (size_t i = 0; i < CAP + 1; ++i) { if (s[i] == 0) break; ++n; } fits(n); return n; }

  vf_string() : n_(0) { b_[0] = 0; }
  vf_string(const char *s) : n_(0) { b_[0] = 0; append(s, __builtin_constant_p(__builtin_strlen(s)) ? __builtin_strlen(s) : cstrlen(s)); }
  vf_string(const char *s, size_t n) : n_(0) { b_[0] = 0; append(s, n); }
  vf_string(size_t n, char c) : n_(0) { b_[0] = 0; append(n, c); }
  vf_string(const vf_string& o, size_t pos, size_t n = npos) : n_(0) { b_[0] = 0; *this = o.substr(pos, n); }
  template <class It, class = typename std::enable_if<!std::is_integral<It>::value>::type>
  VF_NI vf_string(It first, It last) : n_(0) { b_[0] = 0; for (size_t i = 0; i < CAP + 1; ++i) { if (first == last) break; push_back(static_cast<char>(*first)); ++first; } }
  VF_NI vf_string(std::initializer_list<char> il) : n_(0) { b_[0] = 0; for (char c : il) push_back(c); }
  vf_string(const std::basic_string<char>& s) : n_(0) { b_[0] = 0; append(s.data(), s.size()); }
  // copy / move: the whole fixed-size object (constant shape)
  vf_string(const vf_string&) = default;
  vf_string& operator=(const vf_string&) = default;
  vf_string& operator=(const char *s) { n_ = 0; b_[0] = 0; return append(s, __builtin_constant_p(__builtin_strlen(s)) ? __builtin_strlen(s) : cstrlen(s)); }
  vf_string& operator=(char c) { n_ = 0; b_[0] = 0; push_back(c); return *this; }

  size_t size() const { return n_; }
  size_t length() const { return n_; }
  size_t capacity() const { return CAP; }
  size_t max_size() const { return CAP; }
  bool empty() const { return n_ == 0; }
  void clear() { n_ = 0; b_[0] = 0; }
  void reserve(size_t n = 0) { fits(n); }
  void shrink_to_fit() {}
  const char *c_str() const { return b_; }
  const char *data() const { return b_; }
  char *data() { return b_; }
  char& operator[](size_t i) { return b_[i]; }
  const char& operator[](size_t i) const { return b_[i]; }
  char& at(size_t i) { if (i >= n_) std::__throw_out_of_range("vf_string::at"); return b_[i]; }
  const char& at(size_t i) const { if (i >= n_) std::__throw_out_of_range("vf_string::at"); return b_[i]; }
  char& back() { return b_[n_ - 1]; }
  const char& back() const { return b_[n_ - 1]; }
  char& front() { return b_[0]; }
  const char& front() const { return b_[0]; }
  iterator begin() { return b_; }
  iterator end() { return b_ + n_; }
  const_iterator begin() const { return b_; }
  const_iterator end() const { return b_ + n_; }
  const_iterator cbegin() const { return b_; }
  const_iterator cend() const { return b_ + n_; }
  reverse_iterator rbegin() { return reverse_iterator(end()); }
  reverse_iterator rend() { return reverse_iterator(begin()); }
  const_reverse_iterator rbegin() const { return const_reverse_iterator(end()); }
  const_reverse_iterator rend() const { return const_reverse_iterator(begin()); }
  const_reverse_iterator crbegin() const { return const_reverse_iterator(end()); }
  const_reverse_iterator crend() const { return const_reverse_iterator(begin()); }

  void push_back(char c) { fits(n_ + 1); b_[n_] = c; ++n_; b_[n_] = 0; }
  void pop_back() { --n_; b_[n_] = 0; }
  VF_NI vf_string& append(const char *s, size_t n)
  {
    fits(n_ + n);
    for (size_t i = 0; i < CAP && i < n; ++i) b_[n_ + i] = s[i];
    n_ += n; b_[n_] = 0;
    return *this;
  }
  vf_string& append(const char *s) { return append(s, __builtin_constant_p(__builtin_strlen(s)) ? __builtin_strlen(s) : cstrlen(s)); }
  vf_string& append(const vf_string& o) { return append(o.b_, o.n_); }
  vf_string& append(const vf_string& o, size_t pos, size_t n) { return append(o.substr(pos, n)); }
  VF_NI vf_string& append(size_t n, char c)
  {
    fits(n_ + n);
    for (size_t i = 0; i < CAP && i < n; ++i) b_[n_ + i] = c;
    n_ += n; b_[n_] = 0;
    return *this;
  }
  template <class It, class = typename std::enable_if<!std::is_integral<It>::value>::type>
  VF_NI vf_string& append(It first, It last) { for (size_t i = 0; i < CAP + 1; ++i) { if (first == last) break; push_back(static_cast<char>(*first)); ++first; } return *this; }
  vf_string& operator+=(const vf_string& o) { return append(o); }
  vf_string& operator+=(const char *s) { return append(s); }
  vf_string& operator+=(char c) { push_back(c); return *this; }
  vf_string& assign(const vf_string& o) { *this = o; return *this; }
  vf_string& assign(const char *s) { clear(); return append(s); }
  vf_string& assign(const char *s, size_t n) { clear(); return append(s, n); }
  vf_string& assign(size_t n, char c) { clear(); return append(n, c); }
  template <class It, class = typename std::enable_if<!std::is_integral<It>::value>::type>
  vf_string& assign(It first, It last) { clear(); return append(first, last); }
  VF_NI void resize(size_t n, char c = 0)
  {
    fits(n);
    for (size_t i = 0; i < CAP && i < n; ++i) if (i >= n_) b_[i] = c;
    n_ = n; b_[n_] = 0;
  }
  void swap(vf_string& o) { vf_string t(*this); *this = o; o = t; }

  VF_NI vf_string substr(size_t pos = 0, size_t n = npos) const
  {
    if (pos > n_) std::__throw_out_of_range("vf_string::substr");
    vf_string r;
    const size_t avail = n_ - pos, take = n < avail ? n : avail;
    for (size_t i = 0; i < CAP && i < take; ++i) r.b_[i] = b_[pos + i];
    r.n_ = take; r.b_[take] = 0;
    return r;
  }
  VF_NI vf_string& erase(size_t pos = 0, size_t n = npos)
  {
    if (pos > n_) std::__throw_out_of_range("vf_string::erase");
    const size_t avail = n_ - pos, cut = n < avail ? n : avail;
    for (size_t i = 0; i < CAP && i + cut < n_; ++i) if (i >= pos) b_[i] = b_[i + cut];
    n_ -= cut; b_[n_] = 0;
    return *this;
  }
  iterator erase(const_iterator p) { const size_t pos = static_cast<size_t>(p - b_); erase(pos, 1); return b_ + pos; }
  iterator erase(const_iterator f, const_iterator l) { const size_t pos = static_cast<size_t>(f - b_); erase(pos, static_cast<size_t>(l - f)); return b_ + pos; }
  vf_string& insert(size_t pos, const vf_string& o)
  {
    if (pos > n_) std::__throw_out_of_range("vf_string::insert");
    vf_string tail = substr(pos);
    n_ = pos; b_[n_] = 0;
    append(o); append(tail);
    return *this;
  }
  vf_string& insert(size_t pos, const char *s) { return insert(pos, vf_string(s)); }
  vf_string& insert(size_t pos, size_t n, char c) { return insert(pos, vf_string(n, c)); }
  iterator insert(const_iterator p, char c) { const size_t pos = static_cast<size_t>(p - b_); insert(pos, 1, c); return b_ + pos; }
  vf_string& replace(size_t pos, size_t n, const vf_string& o)
  {
    vf_string tail = substr(pos + (n < n_ - pos ? n : n_ - pos));
    n_ = pos; b_[n_] = 0;
    append(o); append(tail);
    return *this;
  }

  VF_NI size_t find(char c, size_t pos = 0) const
  {
    for (size_t i = 0; i < CAP && i < n_; ++i) if (i >= pos && b_[i] == c) return i;
    return npos;
  }
  VF_NI size_t find(const char *s, size_t pos, size_t m) const
  {
    for (size_t i = 0; i < CAP + 1; ++i)
      if (i >= pos && i + m <= n_)
        {
          bool eq = true;
          for (size_t j = 0; j < CAP && j < m; ++j) if (b_[i + j] != s[j]) eq = false;
          if (eq) return i;
        }
    return npos;
  }
  size_t find(const vf_string& o, size_t pos = 0) const { return find(o.b_, pos, o.n_); }
  size_t find(const char *s, size_t pos = 0) const { return find(s, pos, cstrlen(s)); }
  VF_NI size_t rfind(char c, size_t pos = npos) const
  {
    size_t r = npos;
    for (size_t i = 0; i < CAP && i < n_; ++i) if (i <= pos && b_[i] == c) r = i;
    return r;
  }
  VF_NI static bool among(char c, const char *set, size_t m) { bool in = false; for (size_t j = 0; j < CAP && j < m; ++j) if (set[j] == c) in = true; return in; }
  VF_NI size_t find_first_of(const char *set, size_t pos = 0) const
  {
    const size_t m = cstrlen(set);
    for (size_t i = 0; i < CAP && i < n_; ++i) if (i >= pos && among(b_[i], set, m)) return i;
    return npos;
  }
  size_t find_first_of(const vf_string& set, size_t pos = 0) const { return find_first_of(set.b_, pos); }
  size_t find_first_of(char c, size_t pos = 0) const { return find(c, pos); }
  VF_NI size_t find_first_not_of(const char *set, size_t pos = 0) const
  {
    const size_t m = cstrlen(set);
    for (size_t i = 0; i < CAP && i < n_; ++i) if (i >= pos && !among(b_[i], set, m)) return i;
    return npos;
  }
  size_t find_first_not_of(const vf_string& set, size_t pos = 0) const { return find_first_not_of(set.b_, pos); }
  size_t find_first_not_of(char c, size_t pos = 0) const { const char s[2] = {c, 0}; return find_first_not_of(s, pos); }
  VF_NI size_t find_last_of(const char *set, size_t pos = npos) const
  {
    const size_t m = cstrlen(set);
    size_t r = npos;
    for (size_t i = 0; i < CAP && i < n_; ++i) if (i <= pos && among(b_[i], set, m)) r = i;
    return r;
  }
  size_t find_last_of(char c, size_t pos = npos) const { return rfind(c, pos); }
  VF_NI size_t find_last_not_of(const char *set, size_t pos = npos) const
  {
    const size_t m = cstrlen(set);
    size_t r = npos;
    for (size_t i = 0; i < CAP && i < n_; ++i) if (i <= pos && !among(b_[i], set, m)) r = i;
    return r;
  }
  size_t find_last_not_of(const vf_string& set, size_t pos = npos) const { return find_last_not_of(set.b_, pos); }
  size_t find_last_not_of(char c, size_t pos = npos) const { const char s[2] = {c, 0}; return find_last_not_of(s, pos); }

  // three-way comparison as by char_traits<char>::compare (unsigned char order), then by length
  VF_NI static int cmp(const char *a, size_t na, const char *b, size_t nb)
  {
    const size_t m = na < nb ? na : nb;
    for (size_t i = 0; i < CAP && i < m; ++i)
      if (a[i] != b[i])
        return static_cast<unsigned char>(a[i]) < static_cast<unsigned char>(b[i]) ? -1 : 1;
    return na < nb ? -1 : (na > nb ? 1 : 0);
  }
  int compare(const vf_string& o) const { return cmp(b_, n_, o.b_, o.n_); }
  int compare(const char *s) const { return cmp(b_, n_, s, cstrlen(s)); }
  int compare(size_t pos, size_t n, const vf_string& o) const { const vf_string t = substr(pos, n); return t.compare(o); }
  int compare(size_t pos, size_t n, const char *s) const { const vf_string t = substr(pos, n); return t.compare(s); }
  operator std::basic_string<char>() const { return std::basic_string<char>(b_, n_); }
};

inline bool operator==(const vf_string& a, const vf_string& b) { return a.compare(b) == 0; }
inline bool operator!=(const vf_string& a, const vf_string& b) { return a.compare(b) != 0; }
inline bool operator<(const vf_string& a, const vf_string& b) { return a.compare(b) < 0; }
inline bool operator>(const vf_string& a, const vf_string& b) { return a.compare(b) > 0; }
inline bool operator<=(const vf_string& a, const vf_string& b) { return a.compare(b) <= 0; }
inline bool operator>=(const vf_string& a, const vf_string& b) { return a.compare(b) >= 0; }
inline bool operator==(const vf_string& a, const char *b) { return a.compare(b) == 0; }
inline bool operator!=(const vf_string& a, const char *b) { return a.compare(b) != 0; }
inline bool operator==(const char *a, const vf_string& b) { return b.compare(a) == 0; }
inline bool operator!=(const char *a, const vf_string& b) { return b.compare(a) != 0; }
inline bool operator<(const vf_string& a, const char *b) { return a.compare(b) < 0; }
inline bool operator<(const char *a, const vf_string& b) { return b.compare(a) > 0; }
inline vf_string operator+(const vf_string& a, const vf_string& b) { vf_string r(a); r.append(b); return r; }
inline vf_string operator+(const vf_string& a, const char *b) { vf_string r(a); r.append(b); return r; }
inline vf_string operator+(const char *a, const vf_string& b) { vf_string r(a); r.append(b); return r; }
inline vf_string operator+(const vf_string& a, char b) { vf_string r(a); r.push_back(b); return r; }
inline vf_string operator+(char a, const vf_string& b) { vf_string r(1, a); r.append(b); return r; }
inline void swap(vf_string& a, vf_string& b) { a.swap(b); }
template <> struct hash<vf_string> { size_t operator()(const vf_string& s) const { size_t h = 1469598103934665603ull; for (size_t i = 0; i < vf_string::CAP; ++i) if (i < s.n_) h = (h ^ static_cast<unsigned char>(s.b_[i])) * 1099511628211ull; return h; } };
// as libstdc++'s __stoa: strtol/strtoul on the characters, invalid_argument if nothing was converted, out_of_range on ERANGE
inline long stol(const vf_string& s, size_t *idx = nullptr, int base = 10)
{
  char *e = nullptr; errno = 0;
  const long v = strtol(s.c_str(), &e, base);
  if (e == s.c_str()) std::__throw_invalid_argument("stol");
  if (errno == ERANGE) std::__throw_out_of_range("stol");
  if (idx) *idx = static_cast<size_t>(e - s.c_str());
  return v;
}
inline unsigned long stoul(const vf_string& s, size_t *idx = nullptr, int base = 10)
{
  char *e = nullptr; errno = 0;
  const unsigned long v = strtoul(s.c_str(), &e, base);
  if (e == s.c_str()) std::__throw_invalid_argument("stoul");
  if (errno == ERANGE) std::__throw_out_of_range("stoul");
  if (idx) *idx = static_cast<size_t>(e - s.c_str());
  return v;
}
inline int stoi(const vf_string& s, size_t *idx = nullptr, int base = 10)
{
  const long v = stol(s, idx, base);
  if (v < INT_MIN || v > INT_MAX) std::__throw_out_of_range("stoi");
  return static_cast<int>(v);
}
}  // namespace std
#define string vf_string
#endif
#endif
