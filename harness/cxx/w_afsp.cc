// Wrapper TU: ambiguous file specifications (wildcards), dfs/afsp.cc, against the documented DFS semantics (C15).
// glibc's regcomp/regexec are replaced by the restricted POSIX ERE model in stubs/vf_stubs.c (see there); the native
// build used for replay and for the translator validation runs the same harness on the real glibc regex.
#include "prelude.h"
namespace DFS { bool verbose = false; }
#include "/repo/dfs/stringutil.cc"
#include "/repo/dfs/exceptions.cc"
#include "/repo/dfs/driveselector.cc"
#include "/repo/dfs/afsp.cc"

#ifndef WLEN
#define WLEN 2
#endif
#ifndef NLEN
#define NLEN 2
#endif

namespace {
inline bool is_letter(unsigned char c) { return (c >= 'A' && c <= 'Z') || (c >= 'a' && c <= 'z'); }
inline unsigned char lower(unsigned char c) { return (c >= 'A' && c <= 'Z') ? static_cast<unsigned char>(c + 32) : c; }
// one pattern character against one subject character, per the documented semantics
inline bool one(unsigned char w, unsigned char c)
{
  if (c == '.') return false;                 // '.' only ever separates drive, directory and name
  if (w == '#') return true;
  if (is_letter(w)) return lower(w) == lower(c);
  return w == c;                              // every other character matches only itself
}
// glob match of pat[0..pn) against sub[0..sn): '#' any one character, '*' any run, both never matching '.'
bool glob(const unsigned char *pat, unsigned pn, const unsigned char *sub, unsigned sn)
{
  // position-set evaluation (no recursion): reach[i] = pattern position i reachable after the subject read so far
  bool reach[WLEN + 2];
  for (unsigned i = 0; i < WLEN + 2; ++i) reach[i] = false;
  reach[0] = true;
  for (unsigned i = 0; i < WLEN; ++i) if (i < pn && reach[i] && pat[i] == '*') reach[i + 1] = true;
  for (unsigned k = 0; k < NLEN + 1; ++k)
    if (k < sn)
      {
        bool next[WLEN + 2];
        for (unsigned i = 0; i < WLEN + 2; ++i) next[i] = false;
        for (unsigned i = 0; i < WLEN; ++i)
          if (i < pn && reach[i])
            {
              if (pat[i] == '*') { if (sub[k] != '.') next[i] = true; }
              else if (one(pat[i], sub[k])) next[i + 1] = true;
            }
        for (unsigned i = 0; i < WLEN; ++i) if (i < pn && next[i] && pat[i] == '*') next[i + 1] = true;
        for (unsigned i = 0; i < WLEN + 2; ++i) reach[i] = next[i];
      }
  return reach[pn];
}
}

// A wildcard of exactly WLEN characters (every printable non-space character, so including all regex metacharacters)
// against one catalogue entry (directory character, name of exactly NLEN characters) on drive 0; --drive 0 --dir $.
extern "C" void h_wildcard(void)
{
  unsigned char w[WLEN + 1], name[NLEN + 1];
  for (unsigned i = 0; i < WLEN; ++i) { w[i] = vf_nondet_u8(); vf_assume(w[i] > ' ' && w[i] < 0x7F); }
  w[WLEN] = 0;
  for (unsigned i = 0; i < NLEN; ++i)
    {
      name[i] = vf_nondet_u8();
      // catalogue names that contain the separator or wildcard characters themselves are outside this query
      vf_assume(name[i] > ' ' && name[i] < 0x7F && name[i] != '.' && name[i] != ':' && name[i] != '#' && name[i] != '*');
    }
  name[NLEN] = 0;
  const unsigned char dir = vf_nondet_u8();
  vf_assume(dir > ' ' && dir < 0x7F && dir != '.' && dir != ':' && dir != '#' && dir != '*');

  // ---- the real code
  DFS::DFSContext ctx('$', DFS::VolumeSelector(0));
  std::string error;
  bool real_valid = false, real_match = false, threw = false;
  try
    {
      std::unique_ptr<DFS::AFSPMatcher> m = DFS::AFSPMatcher::make_unique(ctx, std::string(reinterpret_cast<const char *>(w)), &error);
      real_valid = static_cast<bool>(m);
      if (m) real_match = m->matches(DFS::VolumeSelector(0), static_cast<char>(dir), std::string(reinterpret_cast<const char *>(name)));
    }
  catch (std::exception&) { threw = true; }
  vf_assert(!threw, "no exception from wildcard handling");

  // ---- the documented semantics: [:<digits>[A-H].][<dir>.]<name>, omitted parts default to --drive / --dir
  unsigned p = 0; bool spec_valid = true; unsigned long drive = 0; bool has_sub = false;
  if (w[0] == ':' && WLEN >= 3 && w[1] >= '0' && w[1] <= '9')
    {
      unsigned q = 1; unsigned long v = 0;
      for (unsigned g = 0; g < WLEN; ++g) if (q < WLEN && w[q] >= '0' && w[q] <= '9') { v = v * 10 + (w[q] - '0'); ++q; }
      bool sub = false;
      if (q + 1 < WLEN && w[q] >= 'A' && w[q] <= 'H' && w[q + 1] == '.') { sub = true; ++q; }
      if (q < WLEN && w[q] == '.') { drive = v; has_sub = sub; p = q + 1; }
    }
  unsigned char dirpat = '$';
  if (p + 1 < WLEN && w[p] != '.' && w[p + 1] == '.') { dirpat = w[p]; p += 2; }
  if (p >= WLEN) spec_valid = false;
  for (unsigned i = 0; i < WLEN; ++i) if (i >= p && w[i] == '.') spec_valid = false;
  bool spec_match = false;
  if (spec_valid)
    spec_match = drive == 0 && !has_sub && (dirpat == '*' || one(dirpat, dir)) && glob(w + p, WLEN - p, name, NLEN);

  if (spec_valid) vf_assert(real_valid, "a well-formed wildcard is accepted, whatever regular-expression metacharacters it contains");
  if (real_valid && spec_valid) vf_assert(real_match == spec_match, "the wildcard selects exactly the entries the DFS semantics select");
  if (!spec_valid) vf_assert(!real_valid || !real_match, "a malformed wildcard selects nothing");
  vf_observe(real_valid); vf_observe(real_match);
  if (spec_valid && spec_match && dirpat != '$') vf_witness("match with an explicit directory");
  if (spec_valid && !spec_match) vf_witness("well-formed wildcard that does not match");
  if (!spec_valid) vf_witness("malformed wildcard");
}
