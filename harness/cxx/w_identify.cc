// Wrapper TU: catalogue fragments, titles, format identification (C02, C13, C07).
#include "prelude.h"
namespace DFS { bool verbose = false; }
#include "/repo/dfs/geometry.cc"
#include "/repo/dfs/stringutil.cc"
#include "/repo/dfs/exceptions.cc"
#include "/repo/dfs/driveselector.cc"
#include "/repo/dfs/fsp.cc"
#include "/repo/dfs/dfs_unused.cc"
#include "/repo/dfs/dfs_catalog.cc"
#include "/repo/dfs/opus_cat.cc"
#include "/repo/dfs/dfs_volume.cc"
#include "/repo/dfs/dfs_filesystem.cc"
#include "/repo/dfs/img_fileio.cc"
#include "/repo/dfs/storage.cc"
#include "/repo/dfs/identify.cc"

using DFS::byte;

namespace {
// A lazily symbolic medium: sector n is readable iff n < size; the harness decides the contents of
// the sectors it cares about, every other sector is arbitrary (fresh symbolic bytes at probe offsets).
struct LazyMedium : public DFS::DataAccess
{
  static constexpr unsigned N = 4;
  unsigned long known_lba[N]; DFS::SectorBuffer known[N]; unsigned nknown = 0;
  unsigned long size = 0;
  unsigned reads = 0;
  void put(unsigned long lba, const DFS::SectorBuffer& b) { known_lba[nknown] = lba; known[nknown] = b; ++nknown; }
  std::optional<DFS::SectorBuffer> read_block(unsigned long lba) override
  {
    ++reads;
    if (lba >= size) return std::nullopt;
    for (unsigned i = 0; i < N; ++i) if (i < nknown && known_lba[i] == lba) return known[i];
    DFS::SectorBuffer b = DFS::SectorBuffer();
    b[vf_nondet_u8()] = vf_nondet_u8();
    return b;
  }
};
DFS::SectorBuffer symbolic_sector(unsigned nbytes)
{
  DFS::SectorBuffer b = DFS::SectorBuffer();
  for (unsigned i = 0; i < 256; ++i) if (i < nbytes) b[i] = vf_nondet_u8();
  return b;
}
}

// ---------------------------------------------------------------- C13-I1: Watford recognition
extern "C" void h_watford(void)
{
  LazyMedium m;
  m.size = vf_nondet_u16();
  DFS::SectorBuffer s1 = symbolic_sector(256);
  DFS::SectorBuffer s2 = symbolic_sector(8);
  m.put(2, s2);
  const bool got = DFS::internal::smells_like_watford(m, s1);
  // oracle: recognition bytes present in sector 2 AND no catalogued file (entries 1..s1[5]/8) starts in sector 2
  bool marker = m.size > 2;
  for (unsigned i = 0; i < 8; ++i) if (s2[i] != 0xAA) marker = false;
  bool file_in_sector2 = false;
  for (unsigned pos = 8; pos < 256; pos += 8)
    if (pos <= s1[5])
      {
        const unsigned start = s1[pos + 7] | ((s1[pos + 6] & 3u) << 8);
        if (start == 2) file_in_sector2 = true;
      }
  vf_assert(got == (marker && !file_in_sector2), "Watford iff the 0xAA recognition bytes are in sector 2 and no catalogued file starts there (10-bit start sector)");
  vf_assert(DFS::internal::smells_like_hdfs(s1) == ((s1[6] & 8) != 0), "HDFS iff bit 3 of sector 1 byte 6");
  vf_observe(got);
  if (got && s1[5] == 0xF8) vf_witness("Watford disc with a full first catalogue");
  if (!got && marker) vf_witness("Acorn disc whose file in sector 2 begins with the recognition bytes");
}

// ---------------------------------------------------------------- C02-K2/K3: catalogue fragment
#ifndef FRAG_ENTRIES
#define FRAG_ENTRIES 3
#endif
extern "C" void h_fragment(void)
{
  DFS::SectorBuffer s0 = symbolic_sector(8 + 8 * FRAG_ENTRIES), s1 = symbolic_sector(8 + 8 * FRAG_ENTRIES);
  vf_assume(s1[5] <= 8 * FRAG_ENTRIES);
  const bool hdfs = vf_nondet_u8() & 1;
  DFS::CatalogFragment f(hdfs ? DFS::Format::HDFS : DFS::Format::DFS, s0, s1);
  // title: 8 bytes from sector 0 then 4 from sector 1, 7-bit, stops at the first NUL, trailing spaces trimmed
  char t[12]; unsigned n = 0; bool done = false;
  for (unsigned i = 0; i < 12; ++i)
    {
      const byte c = i < 8 ? s0[i] : s1[i - 8];
      if (!done) { if (c == 0) done = true; else t[n++] = static_cast<char>(c & 0x7F); }
    }
  while (n > 0 && t[n - 1] == ' ') --n;
  const std::string title = f.title();
  vf_assert(title.size() == n, "title length: 12 characters, up to the first NUL, right-trimmed");
  for (unsigned i = 0; i < 12; ++i) if (i < n && i < title.size()) vf_assert(title[i] == t[i], "title characters are the 7-bit catalogue bytes");
  vf_assert(f.sequence_number().has_value() && *f.sequence_number() == s1[4], "cycle number is byte 4 of sector 1");
  vf_assert(static_cast<unsigned>(DFS::value(f.boot_setting())) == ((s1[6] >> 4) & 3u), "boot option is bits 4-5 of byte 6");
  unsigned total = s1[7] | ((s1[6] & 3u) << 8);
  if (!hdfs) vf_assert(f.total_sectors() == total, "total sectors = byte 7 + bits 0-1 of byte 6");
  const std::vector<DFS::CatalogEntry> es = f.entries();
  vf_assert(es.size() == s1[5] / 8u, "entry count = byte 5 / 8");
  const unsigned k = vf_nondet_u8() % FRAG_ENTRIES;
  if (k < es.size())
    {
      const unsigned off = 8 + 8 * k;
      vf_assert(es[k].start_sector() == (s1[off + 7] | ((s1[off + 6] & 3u) << 8)), "entry k is built from bytes 8+8k.. of both sectors (start sector)");
      vf_assert(es[k].file_length() == (s1[off + 4] | (s1[off + 5] << 8) | (((s1[off + 6] >> 4) & 3ul) << 16)), "entry k length");
      vf_assert(es[k].directory() == static_cast<char>(s0[off + 7] & 0x7F), "entry k directory");
      const std::string nm = es[k].name();
      unsigned ln = 0; while (ln < 7 && (s0[off + ln] & 0x7F) != ' ' && (s0[off + ln] & 0x7F) != 0) ++ln;
      vf_assert(nm.size() == ln, "entry k name length");
      for (unsigned i = 0; i < 7; ++i) if (i < ln && i < nm.size()) vf_assert(nm[i] == static_cast<char>(s0[off + i] & 0x7F), "entry k name characters");
    }
  vf_observe(title.size()); vf_observe(es.size()); vf_observe(f.total_sectors());
  if (n == 12 && es.size() == FRAG_ENTRIES) vf_witness("twelve-character title and a full fragment");
  if (n == 0) vf_witness("empty title");
}

// ---------------------------------------------------------------- C07: catalogue validation and Opus disc catalogue on arbitrary sectors
extern "C" void h_fragment_valid(void)
{
  DFS::SectorBuffer s0 = symbolic_sector(8 + 8 * FRAG_ENTRIES), s1 = symbolic_sector(8 + 8 * FRAG_ENTRIES);
  vf_assume(s1[5] <= 8 * FRAG_ENTRIES);
  const unsigned which = vf_nondet_u8() % 3;
  const DFS::Format fmt = which == 0 ? DFS::Format::DFS : which == 1 ? DFS::Format::WDFS : DFS::Format::OpusDDOS;
  DFS::CatalogFragment f(fmt, s0, s1);
  std::string error;
  bool threw = false, ok = false;
  try { ok = f.valid(error); } catch (std::exception&) { threw = true; }
  vf_assert(!threw, "catalogue validation never throws");
  if (ok) vf_assert(s1[5] % 8 == 0, "a valid fragment has a whole number of entries");
  vf_observe(ok);
  if (ok && s1[5] == 8 * FRAG_ENTRIES) vf_witness("full valid fragment");
  if (!ok) vf_witness("invalid fragment");
}

extern "C" void h_opus_catalogue(void)
{
  DFS::SectorBuffer s16 = symbolic_sector(14);      // header + volume slots A-C symbolic; D-H absent (bound: <= 3 volumes)
  bool threw_bad = false, threw_other = false; size_t nvol = 0; bool sorted_ok = true, within = true;
  try
    {
      DFS::internal::OpusDiscCatalogue dc(s16, std::nullopt);
      const auto locs = dc.get_volume_locations();
      nvol = locs.size();
      const unsigned long total = (s16[1] << 8) | s16[2];
      for (size_t i = 0; i < 8; ++i)
        if (i < nvol)
          {
            if (i + 1 < nvol && locs[i].start_sector() + locs[i].len() != locs[i + 1].start_sector()) sorted_ok = false;
            if (locs[i].start_sector() + locs[i].len() > total) within = false;
          }
    }
  catch (DFS::BadFileSystem&) { threw_bad = true; }
  catch (std::exception&) { threw_other = true; }
  vf_assert(!threw_other, "a bad Opus volume table is reported as BadFileSystem");
  if (!threw_bad)
    {
      vf_assert(sorted_ok, "volumes are sorted by start and each ends where the next begins");
      vf_assert(within, "no volume extends beyond the total sector count recorded in sector 16");
    }
  vf_observe(threw_bad); vf_observe(nvol);
  if (!threw_bad && nvol == 3) vf_witness("three volumes accepted");
  if (threw_bad) vf_witness("volume table rejected");
}

// ---------------------------------------------------------------- C18: --verbose changes nothing but standard error (2-safety)
extern "C" void h_verbose_watford(void)
{
  LazyMedium m;
  m.size = vf_nondet_u16();
  DFS::SectorBuffer s1 = symbolic_sector(256);
  DFS::SectorBuffer s2 = symbolic_sector(8);
  m.put(2, s2);
  DFS::verbose = false;
  const bool quiet = DFS::internal::smells_like_watford(m, s1);
  const unsigned ev_quiet = vfio::nev, reads_quiet = m.reads;
  DFS::verbose = true;
  const bool loud = DFS::internal::smells_like_watford(m, s1);
  DFS::verbose = false;
  vf_assert(quiet == loud, "the verdict does not depend on --verbose");
  vf_assert(ev_quiet == 0, "nothing at all is printed without --verbose");
  vf_assert(m.reads == 2 * reads_quiet, "the same sectors are read");
  for (unsigned i = 0; i < 8; ++i) if (i < vfio::nev) vf_assert(vfio::ev_stream[i] == 2, "everything --verbose adds goes to standard error");
  vf_observe(quiet); vf_observe(vfio::nev);
  if (vfio::nev > 0) vf_witness("verbose explanation printed");
}
