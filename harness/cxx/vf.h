// Verification primitives used by the C++ wrapper TUs (harness/cxx/*.cc).
// Under the IR->C->CBMC pipeline tools/ir2c.py turns them into symbolic
// values / __CPROVER_assume / __CPROVER_assert; in the native g++ build
// (replay, translator validation) vf_native.cc implements them.
#ifndef VF_H
#define VF_H
#include <stdint.h>
extern "C" {
  uint8_t  vf_nondet_u8(void);
  uint16_t vf_nondet_u16(void);
  uint32_t vf_nondet_u32(void);
  uint64_t vf_nondet_u64(void);
  void vf_assume(bool);
  void vf_assert(bool, const char *msg);     // msg must be a string literal
  void vf_witness(const char *msg);          // reachability witness: must come back "violated"
  void vf_observe(uint64_t);                 // value compared between the generated C and the real C++ (validation)
}
#endif
