// Wrapper TU: gzip transport (C10): reads of the decompressed temporary file, zlib error mapping.
#include "prelude.h"
#include <zlib.h>
namespace DFS { bool verbose = false; }
#include "/repo/dfs/exceptions.cc"
#include "/repo/dfs/img_fileio.cc"
#include "/repo/dfs/geometry.cc"
#include "/repo/dfs/driveselector.cc"
#include "/repo/dfs/storage.cc"
#include "/repo/dfs/img_gzfile.cc"

extern "C" { void vfz_setup(unsigned long size); void vfz_poke(unsigned long i, unsigned char v); unsigned char vfz_peek(unsigned long i); void *vfz_file(void); }

// ---------------------------------------------------------------- C10-Z4: DecompressedFile::read has the contract of OsFile::read
// "On read beyond EOF, returns empty" (abstractio.h); a read that straddles the end returns the bytes that exist.
extern "C" void h_decompressed_read(void)
{
  constexpr unsigned MAXF = 24;
  const unsigned long size = vf_nondet_u8() % (MAXF + 1);
  vfz_setup(size);
  for (unsigned i = 0; i < MAXF; ++i) vfz_poke(i, vf_nondet_u8());
  DecompressedFile *df = static_cast<DecompressedFile *>(::operator new(sizeof(DecompressedFile)));   // state set directly: the constructor would run zlib
  df->f_ = static_cast<FILE *>(vfz_file());
  new (&df->name_) std::string("x");
  const unsigned long pos = vf_nondet_u8() % 40, len = vf_nondet_u8() % 20;
  bool threw = false; std::vector<DFS::byte> got;
  /* non-virtual call: the object was not constructed (no vptr) */ try { got = df->DecompressedFile::read(pos, len); } catch (std::exception&) { threw = true; }
  const unsigned long avail = pos < size ? size - pos : 0;
  const unsigned long want = len < avail ? len : avail;
  vf_assert(!threw, "reading at or beyond the end of the data is not an error");
  vf_assert(got.size() == want, "a read returns min(len, size - pos) bytes: short at the end of the data, empty beyond it");
  const unsigned k = vf_nondet_u8() % 20;
  if (k < got.size()) vf_assert(got[k] == vfz_peek(pos + k), "the bytes returned are the bytes at that position");
  vf_observe(got.size());
  if (want > 0 && want < len) vf_witness("read straddling the end of the data");
  if (want == len && len > 0) vf_witness("complete read");
  if (avail == 0) vf_witness("read beyond the end");
}

// ---------------------------------------------------------------- C10-Z2: zlib status mapping
extern "C" void h_zlib_error_code(void)
{
  const int code = static_cast<int>(vf_nondet_u32());
  bool threw = false;
  try { check_zlib_error_code(code); } catch (std::exception&) { threw = true; }
  vf_assert(threw == (code != Z_OK), "every zlib status other than Z_OK is turned into an exception derived from std::exception");
  vf_observe(threw);
  if (code == Z_DATA_ERROR) vf_witness("corrupt data reported");
  if (code == Z_OK) vf_witness("Z_OK accepted");
}
