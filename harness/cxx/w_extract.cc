// Wrapper TU ("rung 5"): extract-files invoked on an in-memory drive (C12 path confinement, C11 file protocol).
#include "prelude.h"
namespace DFS { bool verbose = false; }
#include "/repo/dfs/geometry.cc"
#include "/repo/dfs/stringutil.cc"
#include "/repo/dfs/exceptions.cc"
#include "/repo/dfs/driveselector.cc"
#include "/repo/dfs/fsp.cc"
#include "/repo/dfs/dfs_unused.cc"
#include "/repo/dfs/dfs_catalog.cc"
#include "/repo/dfs/opus_cat.cc"
#include "/repo/dfs/dfs_volume.cc"
#include "/repo/dfs/dfs_filesystem.cc"
#include "/repo/dfs/img_fileio.cc"
#include "/repo/dfs/storage.cc"
#include "/repo/dfs/commands.cc"
#include "/repo/dfs/crc16.cc"
#include "/repo/dfs/cmd_extract_files.cc"

namespace {
struct MemDrive : public DFS::AbstractDrive
{
  DFS::SectorBuffer s0, s1;
  std::optional<DFS::SectorBuffer> read_block(unsigned long lba) override
  {
    if (lba >= 800) return std::nullopt;
    if (lba == 0) return s0;
    if (lba == 1) return s1;
    return DFS::SectorBuffer();
  }
  DFS::Geometry geometry() const override { return DFS::Geometry(80, 1, 10, DFS::Encoding::FM); }
  std::string description() const override { return std::string("mem"); }
};
}

static MemDrive *the_drive;
std::optional<DFS::VolumeMountResult> stub_mount(const DFS::StorageConfiguration *, const DFS::VolumeSelector&, std::string&)
{
  DFS::Volume *v = new DFS::Volume(DFS::Format::DFS, 0, 0, 800, *the_drive);
  return DFS::VolumeMountResult(std::unique_ptr<DFS::FileSystem>(), v);
}

// CatalogEntry::visit_file_body_piecewise is replaced (ir2c --replace) by this one-byte body: the sector walk is the
// subject of C01/C11 obligations, here only the real visitor lambda (write to the output stream) matters.
bool stub_visit(const DFS::CatalogEntry *, DFS::DataAccess&, std::function<bool(const DFS::byte *, const DFS::byte *)> visitor)
{
  static const DFS::byte body[1] = {0x41};
  return visitor(body, body + 1);
}

#ifndef DEST
#define DEST "out"
#endif
// One catalogued file whose 7 name bytes and directory byte are arbitrary (hostile catalogue).
extern "C" void h_extract_paths(void)
{
  MemDrive drive;
  drive.s0 = DFS::SectorBuffer(); drive.s1 = DFS::SectorBuffer();
  drive.s1[5] = 8; drive.s1[6] = 3; drive.s1[7] = 0x20;                 // one entry, 800 sectors
  for (unsigned j = 0; j < 8; ++j) drive.s0[8 + j] = vf_nondet_u8();
  vf_assume((drive.s0[8] & 0x7F) != ' ' && (drive.s0[8] & 0x7F) != 0); // a file has a name
  drive.s1[8 + 4] = 1; drive.s1[8 + 7] = 2;                             // one byte long, at sector 2
  DFS::StorageConfiguration storage;
  the_drive = &drive;
#ifdef VF_NATIVE
  // the native build (replay / translator validation) has no call redirection: attach the drive for real
  { std::vector<std::optional<DFS::DriveConfig>> drives; drives.emplace_back(DFS::DriveConfig(DFS::Format::DFS, &drive)); storage.connect_drives(drives, DFS::DriveAllocation::FIRST); }
#endif
  DFS::DFSContext ctx('$', DFS::VolumeSelector(0));
  CommandExtractFiles cmd;
  std::vector<std::string> args; args.push_back("extract-files"); args.push_back(DEST);     // destination constant per query
  const char want[] = DEST "/";
  const size_t dlen = (sizeof(DEST) - 1) - (DEST[sizeof(DEST) - 2] == '/' ? 1 : 0);           // length without a trailing slash
  bool ok = false, threw = false;
  try { ok = cmd.invoke(storage, ctx, args); } catch (std::exception&) { threw = true; }
  vf_assert(!threw, "no exception");
  // every host file that was opened lies directly inside the destination directory
  for (unsigned f = 0; f < 4; ++f)
    if (f < std::vf_ofstream::opened)
      {
        const std::string& p = std::vf_ofstream::paths[f];
        bool prefix = p.size() > dlen + 1;
        for (size_t i = 0; i < dlen + 1; ++i) if (i < p.size() && p[i] != want[i]) prefix = false;
        vf_assert(prefix, "created files are inside the destination directory");
        bool inner_slash = false;
        for (size_t i = dlen + 1; i < dlen + 1 + 14; ++i) if (i < p.size() && p[i] == '/') inner_slash = true;
        vf_assert(!inner_slash, "the part of the path that comes from the catalogue contains no path separator");
      }
  vf_assert(std::vf_ofstream::opened <= 4, "harness bound: the paths of at most 4 output files per catalogue entry are tracked");
#ifdef EXTRACT_IO
  // C11: success is reported only if every output file accepted every byte, close() included
  if (ok) vf_assert(!std::vf_ofstream::failed_any, "extract-files returns success only if no open, write or close of an output file failed");
  if (!ok && std::vf_ofstream::failed_any) vf_witness("a failing output file makes the command fail");
#endif
  vf_observe(std::vf_ofstream::opened); vf_observe(ok);
  if (ok && std::vf_ofstream::opened == 2) vf_witness("file and .inf extracted");
  if (!ok) vf_witness("extraction failed");
}
