#!/usr/bin/env python3
"""Authoring-time script: writes spec/tokens.json, the token oracle used by the
C03/C08/C09 checks.  The table is transcribed from doc/bbcbasic.5 (as of the
pinned commit) -- NOT from basic/tokens.c and not from golden-token-map.txt.
It is frozen in spec/tokens.json; the checks never regenerate it from /repo.

Entry kinds per (dialect, byte):
  {"s": "KEYWORD"}   token expands to this string
  "self"             byte represents itself
  "invalid"          doc says the byte is not a valid token in this dialect
  "linenum"          0x8D
  "ext6|ext7|ext8"   two-byte extension introducer
  "pdp_c8"           PDP11 0xC8 rule
  "fastvar"          Windows 0x18..0x1F
  "unspec"           documentation is silent or contradicts itself; the oracle
                     makes no claim (neither "must list" nor "must reject")
Ambiguities resolved as "unspec" (see DESIGN.md, C03):
  * 0x0D inside a line body (doc: "line start or end").
  * 0x7F for 6502/Z80/Windows/PDP11: the table says invalid, the code
    deliberately maps it to itself and the repo's golden token map locks that.
  * Mac 0xC8 0x99..0xA6: table layout spans ARM+Mac, code says ARM only.
0xFB is COLOUR everywhere (the prose says COLOR is "corrected" to COLOUR).
"""
import json, os
DIALECTS = ["6502", "PDP11", "Z80", "ARM", "Windows", "Mac"]
common = {  # "All Dialects Identical" tables of doc/bbcbasic.5
 0x80:"AND",0x81:"DIV",0x82:"EOR",0x83:"MOD",0x84:"OR",0x85:"ERROR",0x86:"LINE",0x87:"OFF",
 0x88:"STEP",0x89:"SPC",0x8A:"TAB(",0x8B:"ELSE",0x8C:"THEN",0x8E:"OPENIN",0x8F:"PTR",
 0x90:"PAGE",0x91:"TIME",0x92:"LOMEM",0x93:"HIMEM",0x94:"ABS",0x95:"ACS",0x96:"ADVAL",
 0x97:"ASC",0x98:"ASN",0x99:"ATN",0x9A:"BGET",0x9B:"COS",0x9C:"COUNT",0x9D:"DEG",0x9E:"ERL",
 0x9F:"ERR",0xA0:"EVAL",0xA1:"EXP",0xA2:"EXT",0xA3:"FALSE",0xA4:"FN",0xA5:"GET",0xA6:"INKEY",
 0xA7:"INSTR(",0xA8:"INT",0xA9:"LEN",0xAA:"LN",0xAB:"LOG",0xAC:"NOT",0xAD:"OPENUP",
 0xAE:"OPENOUT",0xAF:"PI",0xB0:"POINT(",0xB1:"POS",0xB2:"RAD",0xB3:"RND",0xB4:"SGN",
 0xB5:"SIN",0xB6:"SQR",0xB7:"TAN",0xB8:"TO",0xB9:"TRUE",0xBA:"USR",0xBB:"VAL",0xBC:"VPOS",
 0xBD:"CHR$",0xBE:"GET$",0xBF:"INKEY$",0xC0:"LEFT$(",0xC1:"MID$(",0xC2:"RIGHT$(",
 0xC3:"STR$",0xC4:"STRING$(",0xC5:"EOF",0xCF:"PTR",0xD0:"PAGE",0xD1:"TIME",0xD2:"LOMEM",
 0xD3:"HIMEM",0xD4:"SOUND",0xD5:"BPUT",0xD6:"CALL",0xD7:"CHAIN",0xD8:"CLEAR",0xD9:"CLOSE",
 0xDA:"CLG",0xDB:"CLS",0xDC:"DATA",0xDD:"DEF",0xDE:"DIM",0xDF:"DRAW",0xE0:"END",
 0xE1:"ENDPROC",0xE2:"ENVELOPE",0xE3:"FOR",0xE4:"GOSUB",0xE5:"GOTO",0xE6:"GCOL",0xE7:"IF",
 0xE8:"INPUT",0xE9:"LET",0xEA:"LOCAL",0xEB:"MODE",0xEC:"MOVE",0xED:"NEXT",0xEE:"ON",
 0xEF:"VDU",0xF0:"PLOT",0xF1:"PRINT",0xF2:"PROC",0xF3:"READ",0xF4:"REM",0xF5:"REPEAT",
 0xF6:"REPORT",0xF7:"RESTORE",0xF8:"RETURN",0xF9:"RUN",0xFA:"STOP",0xFB:"COLOUR",
 0xFC:"TRACE",0xFD:"UNTIL",0xFE:"WIDTH",0xFF:"OSCLI"}
windows_low = {0x01:"CIRCLE",0x02:"ELLIPSE",0x03:"FILL",0x04:"MOUSE",0x05:"ORIGIN",0x06:"QUIT",
 0x07:"RECTANGLE",0x08:"SWAP",0x09:"SYS",0x0A:"TINT",0x0B:"WAIT",0x0C:"INSTALL",
 0x0E:"PRIVATE",0x0F:"BY",0x10:"EXIT"}
c9ce = {  # byte: (6502, Z80, ARM, Mac, Windows)
 0xC9:("LIST","LIST","WHEN","WHEN","WHEN"),
 0xCA:("NEW","NEW","OF","OF","OF"),
 0xCB:("OLD","OLD","ENDCASE","ENDCASE","ENDCASE"),
 0xCC:("RENUMBER","RENUMBER","ELSE","ELSE","OTHERWISE"),
 0xCD:("SAVE","SAVE","ENDIF","ENDIF","ENDIF"),
 0xCE:("EDIT","PUT","ENDWHILE","ENDWHILE","ENDWHILE")}
c6c8_plain = {0xC6:("AUTO","AUTO","SUM"),0xC7:("DELETE","DELETE","WHILE"),0xC8:("LOAD","LOAD","CASE")}  # 6502,Z80,Windows

def base(d):
    t = {}
    for b in range(256):
        if b == 0x00: e = "invalid"
        elif b == 0x0D: e = "unspec"
        elif b <= 0x10: e = {"s": windows_low[b]} if d == "Windows" else "invalid"
        elif b <= 0x17: e = "self"
        elif b <= 0x1F: e = "fastvar" if d == "Windows" else "self"
        elif b <= 0x7E: e = "self"
        elif b == 0x7F: e = {"s": "OTHERWISE"} if d in ("ARM", "Mac") else "unspec"
        elif b == 0x8D: e = "linenum"
        elif b in (0xC6, 0xC7, 0xC8):
            if d in ("ARM", "Mac"): e = {0xC6:"ext6",0xC7:"ext7",0xC8:"ext8"}[b]
            elif d == "PDP11" and b == 0xC8: e = "pdp_c8"
            else:
                col = {"6502":0,"PDP11":0,"Z80":1,"Windows":2}[d]
                e = {"s": c6c8_plain[b][col]}
        elif b in c9ce:
            col = {"6502":0,"PDP11":0,"Z80":1,"ARM":2,"Mac":3,"Windows":4}[d]
            e = {"s": c9ce[b][col]}
        else: e = {"s": common[b]}
        t[b] = e
    return t

def ext(d, which):
    t = {b: "invalid" for b in range(256)}
    if d not in ("ARM", "Mac"):
        return None
    arm = d == "ARM"
    if which == 6:
        t[0x8E] = {"s":"SUM"}; t[0x8F] = {"s":"BEAT"}
        if not arm:
            for b, s in zip(range(0x90, 0x97), ["ASK","ANSWER","SFOPENIN","SFOPENOUT","SFOPENUP","SFNAME$","MENU"]):
                t[b] = {"s": s}
    elif which == 7:
        t[0x8E] = {"s":"APPEND"}; t[0x8F] = {"s":"AUTO"}
        armk = ["CRUNCH","DELETE","EDIT","HELP","LIST","LOAD","LVAR","NEW","OLD","RENUMBER","SAVE","TEXTLOAD","TEXTSAVE","TWIN","TWINO","INSTALL"]
        mack = ["DELETE","EDIT","HELP","LIST","LOAD","LVAR","NEW","OLD","RENUMBER","SAVE","TWIN","TWINO"]
        ks = armk if arm else mack
        for i, s in enumerate(ks):
            t[0x90 + i] = {"s": s}
    else:
        for b, s in zip(range(0x8E, 0x99), ["CASE","CIRCLE","FILL","ORIGIN","POINT","RECTANGLE","SWAP","WHILE","WAIT","MOUSE","QUIT"]):
            t[b] = {"s": s}
        more = ["SYS","INSTALL","LIBRARY","TINT","ELLIPSE","BEATS","TEMPO","VOICES","VOICE","STEREO","OVERLAY","MANDEL","PRIVATE","EXIT"]
        for i, s in enumerate(more):
            t[0x99 + i] = {"s": s} if arm else "unspec"
    return t

out = {"dialects": DIALECTS, "synonyms": {"32000":"6502","8086":"Z80","SDL":"Windows","MacOSX":"Windows"},
       "big_endian": ["6502","PDP11","ARM","Mac"], "little_endian": ["Z80","Windows"], "tables": {}}
for d in DIALECTS:
    tb = {"base": {("0x%02X" % b): e for b, e in base(d).items()}}
    for w in (6, 7, 8):
        e = ext(d, w)
        if e: tb["c%d" % w] = {("0x%02X" % b): v for b, v in e.items()}
    out["tables"][d] = tb
p = os.path.join(os.path.dirname(os.path.abspath(__file__)), "tokens.json")
json.dump(out, open(p, "w"), indent=0, sort_keys=True)
print("wrote", p)
